"""C16 — separately compiled, imported and linked modules behave like one program.

Theorems (Lean, Props/C16.lean) about the model `Link` of Linker.AddModule / Linker.Link / the module loader:
link = union of the added modules and of everything reachable through imports (chains, diamonds), each loaded exactly
once, unique names; order independence; duplicates rejected, nothing replaced; the IR of a function does not depend on
the module it is compiled in.

Tie to the code: a generated call program (harness/gen_calls.py) is split into 2-5 modules (contiguous segments of its
functions, so the import relation is a DAG that contains the call relation, plus random extra imports giving chains
and diamonds; import statements at random positions among the items of a module).  Each module is compiled on its own
(a sample in separate `nslc.py` processes, the rest in-process), stored with pickle, loaded by name through
`FilesystemModuleLoader` from a scratch directory, and linked in every order of `AddModule` of the root module and up to
two independent extra modules.  Oracle: the VM results of the linked program equal the results of the same functions
compiled as ONE module (and the harness's reference interpreter); every imported module is loaded exactly once
(counting loader); a module defining an already defined function/global makes linking fail instead of replacing it.
Struct family: the same split applied to programs whose functions pass values of one or two struct types to each other
(a declaration then reaches a module by several import paths, or only inside the signature of an imported function).
Correspondence: function table, load count and accept/reject of the real linker = Lean `Link.link` on the same module
graph."""
import os, sys, copy, pickle, random, itertools, tempfile, shutil, subprocess, hashlib
import common, implrun, progfam, proglib, gen, gen_calls, lang, refsem

RULE = ("call programs with 3-8 functions split into 2-5 modules (contiguous segments), imports = modules of the callees + random extra "
        "earlier modules, import statements at random item positions; every order of adding {root, extra modules}; 3 inputs each; a "
        "stratum with a duplicate definition (must be rejected); a struct family (5 of 16 cases): struct declarations and functions passing "
        "struct values (also nested structs) split over modules, a module imports the declaring module only if it NAMES the type. Non-trivial: at least one module is reached only through another "
        "module's import (chain) or by two paths (diamond); distinct = distinct (module texts, add order)")
EXHAUSTIVE = {"quick": False, "thorough": False}
ASSUMPTIONS = ["a module that is both added explicitly and imported is merged twice and therefore rejected (modules have no identity to deduplicate on); "
               "generated add-lists never contain an imported module",
               "globals of an imported module are not visible to the importer (not generated)",
               "module names contain no dot: FilesystemModuleLoader replaces an existing suffix by .nslir (pathlib with_suffix), so a "
               "dotted name does not name the file it was stored as"]
TRUSTED = ["Model/Link.lean mirrors Linker.AddModule/Link and the loaders", "harness/gen_calls.py, refsem.py"]
N = {"quick": 160, "thorough": 4000}


def callees(f):
    out = []
    lang.walk_exprs(f.body, lambda e: out.append(e.fn) if isinstance(e, lang.Call) else None)
    return out


def split(rng, module):
    """-> list of (name, funcs, imports) in dependency order; the last one holds the exported f"""
    fs = module.funcs
    k = min(len(fs), rng.choice([2, 2, 3, 3, 4, 5]))
    cuts = sorted(rng.sample(range(1, len(fs)), k - 1)) if len(fs) > 1 and k > 1 else []
    segs, prev = [], 0
    for c in cuts + [len(fs)]:
        segs.append(fs[prev:c]); prev = c
    # overload families must not be split (an importer registers overloads module by module: fine) — keep as is
    owner = {}
    for i, seg in enumerate(segs):
        for f in seg: owner[id(f)] = i
    mods = []
    for i, seg in enumerate(segs):
        imps = set()
        for f in seg:
            for g in callees(f):
                j = owner[id(g)]
                if j != i: imps.add(j)
        for j in range(i):
            if rng.random() < .25: imps.add(j)          # extra imports: chains and diamonds
        mods.append((NM[i], seg, sorted(imps)))
    return mods


# module names: 40% of the cases use names that differ only in a trailing letter of ".nslir" (util / utils, n, s, l, i, r ...),
# 20% names in sub-directories that share their last component (geom/util, color/util, util, a/b/lib, a/lib)
POOL = ["util", "utils", "shape", "shapes", "vec", "vecs", "n", "s", "l", "i", "r", "lib", "libs", "color", "colori", "ab", "abn"]
NM = ["m%d" % k for k in range(64)]


PATHS = ["geom/util", "color/util", "geom/shape", "color/shape", "a/b/lib", "a/lib", "b/lib", "util", "lib", "a/b/util", "b/a/util", "shape"]


def choose_names(rng):
    global NM
    k = rng.random()
    if k < .4:
        NM = ["m%d" % k for k in range(64)]
    elif k < .6:
        # modules in sub-directories / with dotted names: the same last component or the same first component
        pool = PATHS[:]; rng.shuffle(pool)
        NM = pool + ["x%d" % k for k in range(64)]
    else:
        pool = POOL[:]; rng.shuffle(pool)
        NM = pool + ["x%d" % k for k in range(64)]


def module_text(rng, name, funcs, imps):
    items = ['import "%s";' % NM[j] for j in imps] + [f.src() for f in funcs]
    rng.shuffle(items)
    # struct declarations keep their relative order (a struct member of struct type names an earlier declaration)
    decls = [f.src() for f in funcs if isinstance(f, TxtItem) and f.is_type]
    if len(decls) > 1:
        pos = [i for i, it in enumerate(items) if it in decls]
        for i, d in zip(pos, decls): items[i] = d
    return "\n".join(items) + "\n"


class TxtItem:
    """an item of a struct-family program (struct declaration or function), kept as text"""
    def __init__(self, text, irname=None, is_type=False, names=(), calls=(), exported=False):
        self.text, self._irname, self.is_type, self.names, self.calls, self.exported = text, irname, is_type, set(names), set(calls), exported
    def src(self): return self.text
    def irname(self): return self._irname


def struct_program(rng):
    """A program whose functions pass struct values to each other; the struct declarations and the functions are split
    over modules like every other program, so that one declaration reaches a module by several import paths, or only
    through the signature of an imported function (the importer never names the type).
    -> (items in dependency order, f, features)"""
    import types as _t
    feat = {}
    def hit(k): feat[k] = feat.get(k, 0) + 1
    nf = rng.choice([2, 3, 3, 4])
    fields = [("m%d" % i, rng.choice(["float", "int"])) for i in range(nf)]
    if not any(t == "float" for _, t in fields): fields[0] = (fields[0][0], "float")
    items = [TxtItem("struct S {\n%s}" % "".join("  %s %s;\n" % (t, n) for n, t in fields), is_type=True)]
    nested = rng.random() < .5
    if nested:
        items.append(TxtItem("struct T {\n  S inner;\n  float w;\n}", is_type=True, names={"S"})); hit("struct:nested")
    lit = lambda t: ("%d.%d" % (rng.randrange(0, 4), rng.randrange(0, 10, 5))) if t == "float" else str(rng.randrange(0, 5))
    mks, upds, reds = [], [], []
    for k in range(rng.choice([1, 1, 2])):
        body = "".join("s.%s = %s %s %s; " % (n, "a" if t == "float" else "b", rng.choice("+-*"), lit(t)) for n, t in fields)
        items.append(TxtItem("function mk%d(float a, int b) -> S { S s; %sreturn s; }" % (k, body), "@mk%d->S`float,int" % k, names={"S"})); mks.append("mk%d" % k)
    for k in range(rng.choice([0, 1, 1, 2])):
        n, t = rng.choice(fields)
        call = rng.random() < .4
        pre = ("s = %s(k, 2); " % rng.choice(mks)) if call and rng.random() < .3 else ""
        items.append(TxtItem("function upd%d(S s, float k) -> S { %ss.%s = s.%s * %s + %s; return s; }" % (k, pre, n, n, "k" if t == "float" else "2", lit(t)),
                             "@upd%d->S`S,float" % k, names={"S"}, calls=set(mks) if pre else ())); upds.append("upd%d" % k)
    for k in range(rng.choice([1, 2])):
        e = " + ".join("s.%s * %s" % (n, lit(t)) for n, t in fields)
        items.append(TxtItem("function red%d(S s) -> float { return %s; }" % (k, e), "@red%d->float`S" % k, names={"S"})); reds.append("red%d" % k)
    if nested:
        items.append(TxtItem("function wrap0(S s, float w) -> T { T t; t.inner = s; t.w = w; return t; }", "@wrap0->T`S,float", names={"S", "T"}))
        r0 = rng.choice(reds)
        items.append(TxtItem("function un0(T t) -> float { return %s(t.inner) + t.w; }" % r0, "@un0->float`T", names={"T"}, calls={r0}))
    # the exported function: either names the struct types (locals) or only passes values from one callee to the next
    calls, names, terms, stmts = set(), set(), [], []
    def use(fn): calls.add(fn); return fn
    def sval(depth=0):
        e = "%s(a %s %s, b + %d)" % (use(rng.choice(mks)), rng.choice("+*"), lit("float"), rng.randrange(3))
        while upds and rng.random() < .5 and depth < 2:
            e = "%s(%s, %s)" % (use(rng.choice(upds)), e, lit("float")); depth += 1
        return e
    anonymous = rng.random() < .5
    if anonymous:
        hit("struct:root-never-names-the-type")
        for _ in range(rng.choice([1, 2])): terms.append("%s(%s)" % (use(rng.choice(reds)), sval()))
        if nested: terms.append("%s(%s(%s, a))" % (use("un0"), use("wrap0"), sval()))
    else:
        hit("struct:root-declares-locals")
        names.add("S")
        stmts.append("S s = %s;" % sval())
        if upds: stmts.append("s = %s(s, %s);" % (use(rng.choice(upds)), lit("float")))
        terms.append("%s(s)" % use(rng.choice(reds)))
        terms.append("%s(%s)" % (use(rng.choice(reds)), sval()))
        if nested:
            names.add("T"); stmts.append("T t = %s(s, a);" % use("wrap0")); terms.append("%s(t)" % use("un0"))
    items.append(TxtItem("export function f(float a, int b) -> float { %s return %s; }" % (" ".join(stmts), " + ".join(terms)), "f", names=names, calls=calls, exported=True))
    f = _t.SimpleNamespace(params=[("a", lang.FLOAT), ("b", lang.INT)], ret=lang.FLOAT)
    return items, f, feat


def split_items(rng, items):
    """like `split`, for a struct-family program: a module imports the modules declaring the struct types it NAMES and
    the modules of its callees (plus random earlier modules); a type that only occurs in the signature of an imported
    function is not imported."""
    k = min(len(items), rng.choice([2, 3, 3, 4, 5]))
    cuts = sorted(rng.sample(range(1, len(items)), k - 1))
    segs, prev = [], 0
    for c in cuts + [len(items)]:
        segs.append(items[prev:c]); prev = c
    owner = {}
    for i, seg in enumerate(segs):
        for it in seg:
            if it.is_type: owner[it.text.split()[1]] = i
            else: owner[it.text.split("function ")[1].split("(")[0]] = i
    mods = []
    for i, seg in enumerate(segs):
        imps = set()
        for it in seg:
            for n in list(it.names) + list(it.calls):
                if owner[n] != i: imps.add(owner[n])
        for j in range(i):
            if rng.random() < .25: imps.add(j)
        mods.append((NM[i], seg, sorted(imps)))
    return mods


class CountingLoader:
    def __init__(self, inner): self.inner, self.loads = inner, []
    def Load(self, name):
        self.loads.append(name)
        return self.inner.Load(name)


def link_and_run(L, added, fname, f, inputs, loader):
    lk = L.Linker(loader=loader)
    for m in added: lk.AddModule(m)
    prog = lk.Link()
    outs = []
    for args in inputs:
        vm = implrun.new_vm(prog)
        kw = {n: copy.deepcopy(v) for (n, t), v in zip(f.params, args)}
        r = implrun.invoke(vm, fname, kw)
        outs.append(('ok', lang.canon(r[1], f.ret)) if r[0] == 'ok' else (r[0], r[1]))
    return prog, outs


def one_case(seed, opts):
    """runs inside a worker; returns a JSON-able record"""
    implrun.load()
    L = implrun.LinearIR
    rng = random.Random(seed)
    choose_names(rng)
    if opts.get("structs", False):
        items, f, feat = struct_program(rng)
        whole, whole_src = None, "\n".join(it.src() for it in items) + "\n"
        mods = split_items(rng, items)
    else:
        g = gen_calls.CG(rng, dict(vectors=rng.random() < .5))
        for _ in range(20):
            whole = g.program()
            if not lang.calls_consistent(whole): break
        f = whole.find("f")
        mods = split(rng, whole)
        whole_src, feat = whole.src(), g.feat
    # duplicate-definition stratum, global flavour: one module of the program declares a global that a second, explicitly
    # added module declares again
    dup_global = None
    if opts.get("dup", False) and rng.random() < .4:
        dup_global = rng.choice(["gq0", "level", "n"])
        whole_src = "int %s;\n" % dup_global + whole_src
    inputs = [[gen.gen_value(rng, t) for _, t in f.params] for _ in range(3)]
    rec = dict(seed=seed, features=dict(feat), nmods=len(mods), structs=bool(opts.get("structs", False)))
    texts = {name: module_text(rng, name, funcs, imps) for name, funcs, imps in mods}
    if dup_global is not None:
        holder = rng.choice([name for name, funcs, imps in mods])
        texts[holder] = texts[holder] + "int %s;\n" % dup_global
    rec["texts"] = texts
    rec["imports"] = {name: [NM[j] for j in imps] for name, funcs, imps in mods}
    # shape of the import graph
    direct = set(mods[-1][2])
    reach = set(); todo = list(direct)
    while todo:
        j = todo.pop()
        if j in reach: continue
        reach.add(j); todo += mods[j][2]
    rec["chain"] = bool(reach - direct)
    indeg = {}
    for name, funcs, imps in mods:
        for j in imps: indeg[j] = indeg.get(j, 0) + 1
    rec["diamond"] = any(v > 1 for v in indeg.values())
    # --- whole program as one module
    c = implrun.compile_src(whole_src)
    if c[0] != 'ok':
        rec["whole_reject"] = [list(c[1]), c[2]]; return rec
    try:
        _, whole_out = link_and_run(L, [c[1].IRModule], "f", f, inputs, L.FilesystemModuleLoader())
    except BaseException as e:
        rec["whole_reject"] = [["link"], repr(e)[:100]]; return rec
    rec["whole"] = whole_out
    refs = []
    for args in inputs:
        if whole is None:
            refs.append(('ood', 'no reference interpreter for the struct family')); continue
        try:
            v = refsem.Ref(whole).invoke("f", copy.deepcopy(args), {})
            refs.append(('ok', lang.canon(v, f.ret)))
        except refsem.OutOfDomain as e:
            refs.append(('ood', str(e)))
    rec["ref"] = refs
    # --- separate compilation into a scratch directory
    d = tempfile.mkdtemp(prefix="nslc16-")
    old = os.getcwd()
    try:
        os.chdir(d)
        use_cli = opts.get("cli", False)
        compiled = {}
        for name, funcs, imps in mods:
            if os.path.dirname(name): os.makedirs(os.path.dirname(name), exist_ok=True)
            if use_cli:
                open(name + ".nsl", "w").write(texts[name])
                p = subprocess.run([common.PY, os.path.join(os.environ["NSL_SCRATCH"], "nslc.py"), name + ".nsl", "-o", name + ".nslir"],
                                   capture_output=True, text=True, env=dict(os.environ, PYTHONPATH=os.environ["NSL_SCRATCH"], PYTHONHASHSEED=str(seed % 7)))
                if p.returncode != 0 or not os.path.exists(name + ".nslir"):
                    rec["separate_reject"] = [name, (p.stdout + p.stderr)[-300:]]; return rec
                compiled[name] = L.FilesystemModuleLoader().Load(name)
            else:
                cm = implrun.compile_src(texts[name])
                if cm[0] != 'ok':
                    rec["separate_reject"] = [name, list(cm[1]), cm[2]]; return rec
                pickle.dump(cm[1].IRModule, open(name + ".nslir", "wb"))
                compiled[name] = cm[1].IRModule
        root = mods[-1][0]
        # independent extra modules (not imported by anyone)
        extras = []
        for k in range(rng.choice([0, 1, 2])):
            src = "export function extra%d(int a) -> int { return a + %d; }\n" % (k, k)
            ce = implrun.compile_src(src)
            extras.append(ce[1].IRModule)
        rec["orders"] = []
        added_all = [("root", None)] + [("extra%d" % k, m) for k, m in enumerate(extras)]
        for perm in itertools.permutations(range(len(added_all))):
            loader = CountingLoader(L.FilesystemModuleLoader())
            mods_added = [pickle.load(open(root + ".nslir", "rb")) if added_all[i][0] == "root" else copy.deepcopy(added_all[i][1]) for i in perm]
            try:
                prog, outs = link_and_run(L, mods_added, "f", f, inputs, loader)
                rec["orders"].append(dict(order=[added_all[i][0] for i in perm], status="ok", outs=outs,
                                          funcs=sorted(prog.Functions.keys()), loads=sorted(loader.loads)))
            except BaseException as e:
                rec["orders"].append(dict(order=[added_all[i][0] for i in perm], status="error", error="%s: %s" % (type(e).__name__, str(e)[:120]),
                                          loads=sorted(loader.loads)))
        # --- duplicate definition: a second module defining one of the program's functions must be rejected
        if opts.get("dup", False):
            victim = rng.choice([fn for name, funcs, imps in mods if (name == root or NM.index(name) in reach) for fn in funcs if fn.irname() is not None])
            dup_src = victim.src().replace("export ", "")
            if dup_global is not None:
                reachable = [name for name, funcs, imps in mods if (name == root or NM.index(name) in reach)]
                dup_src = "%s %s;\nexport function extraq(int a) -> int { return a; }\n" % (rng.choice(["int", "float"]), dup_global)
                victim = None if holder in reachable else "unreachable"
            cd = implrun.compile_src(dup_src if (victim is None or not victim.exported) else victim.src()) if victim != "unreachable" else ("skip",)
            if cd[0] == 'ok':
                try:
                    lk = L.Linker(loader=L.FilesystemModuleLoader())
                    order = [pickle.load(open(root + ".nslir", "rb")), cd[1].IRModule]
                    if rng.random() < .5: order.reverse()
                    for m in order: lk.AddModule(m)
                    prog = lk.Link()
                    rec["dup"] = dict(status="accepted", name=victim.irname() if victim is not None else "global " + dup_global)
                except BaseException as e:
                    rec["dup"] = dict(status="rejected", error=type(e).__name__, kind="global" if victim is None else "function")
        # --- the model's view of the module graph
        rec["model_line"] = "link " + " ; ".join(
            "%s : %s : %s" % (name, "!".join(fn.irname() for fn in funcs if fn.irname() is not None) or "-", ",".join(NM[j] for j in imps) or "-") for name, funcs, imps in mods) + \
            " ;; " + " ".join([root] + ["extra%d" % k for k in range(len(extras))])
        rec["expected_funcs"] = sorted([fn.irname() for name, funcs, imps in mods if (name == root or NM.index(name) in reach) for fn in funcs if fn.irname() is not None] + ["extra%d" % k for k in range(len(extras))])
        rec["expected_loads"] = sorted(NM[j] for j in reach)
    finally:
        os.chdir(old)
        shutil.rmtree(d, ignore_errors=True)
    return rec


def _work(job):
    seed, opts = job
    try:
        return one_case(seed, opts)
    except common.Infra as e:
        return dict(infra=str(e), seed=seed)
    except Exception as e:
        import traceback
        return dict(harness_error="%s: %s\n%s" % (type(e).__name__, e, traceback.format_exc()[-1200:]), seed=seed)


def explore(run, scale=1):
    import multiprocessing
    implrun.load()
    common.ensure_driver()
    n = N[run.tier] * scale
    jobs = []
    for i in range(n):
        seed = progfam._seed_for(run.seed, "C16", i)
        jobs.append((seed, dict(cli=(i % 8 == 0), dup=(i % 4 == 1), structs=(i % 4 == 2 or i % 16 == 8))))
    recs = []
    for job, rec in progfam.parallel_map(_work, jobs):
        if rec is progfam.LOST: run.count("skipped:worker died or hung"); continue
        recs.append(rec)
    recs.sort(key=lambda r: r.get("seed", 0))
    d = common.Driver()
    for rec in recs:
        if "infra" in rec: raise common.Infra(rec["infra"])
        if "harness_error" in rec: raise common.Infra("harness error (seed %s): %s" % (rec["seed"], rec["harness_error"]))
        for k, v in rec.get("features", {}).items(): run.count("feature:" + k, v)
        base = dict(seed=rec["seed"], texts=rec.get("texts"), structs=rec.get("structs", False))
        if rec.get("structs"): run.count("family:structs")
        if "whole_reject" in rec:
            run.count("whole-program-rejected"); continue
        if "separate_reject" in rec:
            run.case(("sep", rec["seed"]), nontrivial=True)
            run.fail("separate-reject", dict(base, reject=rec["separate_reject"]),
                     "the program compiles as one module but module %s is rejected when compiled separately: %s" % (rec["separate_reject"][0], rec["separate_reject"][1:]),
                     key="separate-reject")
            continue
        nt = rec["chain"] or rec["diamond"]
        run.count("graph:chain" if rec["chain"] else "graph:flat"); run.count("graph:diamond" if rec["diamond"] else "graph:tree")
        run.count("modules:%d" % rec["nmods"])
        model = d.ask(rec["model_line"])
        for o in rec["orders"]:
            key = (hashlib.blake2b(repr(sorted(rec["texts"].items())).encode(), digest_size=8).hexdigest(), tuple(o["order"]))
            run.case(key, nontrivial=nt, sample=dict(modules=rec["texts"], order=o["order"], status=o["status"]) if (nt and len(run.samples) < 2) else None)
            inp = dict(base, order=o["order"])
            if o["status"] != "ok":
                run.fail("link-fails", dict(inp, error=o["error"]), "linking %s fails: %s" % (o["order"], o["error"]), key="link-fails:" + o["error"].split(":")[0])
                continue
            for j, (x, w, r) in enumerate(zip(o["outs"], rec["whole"], rec["ref"])):
                if tuple(x) != tuple(w):
                    run.fail("behaviour", dict(inp, input_index=j, linked=list(x), whole=list(w)),
                             "order %s input %d: linked program %s, single module %s" % (o["order"], j, list(x), list(w)), key="behaviour:" + x[0]); break
                if r[0] == "ok" and tuple(x) != tuple(r):
                    run.fail("behaviour", dict(inp, input_index=j, linked=list(x), reference=list(r)),
                             "order %s input %d: linked program %s, source semantics %s" % (o["order"], j, list(x), list(r)), key="behaviour-ref:" + x[0]); break
            if o["funcs"] != rec["expected_funcs"]:
                run.fail("table", dict(inp, funcs=o["funcs"], expected=rec["expected_funcs"]), "function table %s, union of the import closure %s" % (o["funcs"], rec["expected_funcs"]), key="table")
            if o["loads"] != rec["expected_loads"]:
                run.fail("loads", dict(inp, loads=o["loads"], expected=rec["expected_loads"]), "modules loaded %s, import closure (each once) %s" % (o["loads"], rec["expected_loads"]), key="loads")
            want = "ok %s | %s" % (",".join(o["funcs"]), ",".join(o["loads"]))
            if model != want:
                run.mismatch("link-model", inp, model, want)
        if "dup" in rec:
            run.case(("dup", rec["seed"]), nontrivial=True); run.count("dup:" + rec["dup"]["status"]); run.count("dup-kind:" + rec["dup"].get("kind", "function"))
            if rec["dup"]["status"] != "rejected":
                run.fail("duplicate", dict(base, name=rec["dup"]["name"]), "a second definition of %s was accepted by the linker" % rec["dup"]["name"], key="duplicate-accepted")
    d.close()


def search(run):
    explore(run, scale=4 if run.tier == "quick" else 1)


def matches(entry, failure):
    return failure["key"].startswith(entry.get("matcher", "\0"))


def replay(obj):
    implrun.load()
    x = obj["input"]
    rec = one_case(x["seed"], dict(cli=False, dup=(obj["kind"] == "duplicate"), structs=x.get("structs", False)))
    if obj["kind"] == "duplicate":
        ok = rec.get("dup", {}).get("status") == "rejected"
        return ok, "duplicate definition: %s" % rec.get("dup")
    if "separate_reject" in rec: return False, "separate compilation rejected: %s" % (rec["separate_reject"],)
    bad = []
    for o in rec.get("orders", []):
        if o["status"] != "ok": bad.append("%s: %s" % (o["order"], o["error"])); continue
        if [tuple(a) for a in o["outs"]] != [tuple(a) for a in rec["whole"]]: bad.append("%s: results differ from the single module" % (o["order"],))
        if o["funcs"] != rec["expected_funcs"] or o["loads"] != rec["expected_loads"]: bad.append("%s: table/loads differ" % (o["order"],))
    return not bad, "; ".join(bad) or "linked = whole in every order"
