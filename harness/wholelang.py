"""Hand-written whole-language corpus: vectors, matrices, swizzles, structs, arrays, calls, overloads, every statement
form.  Each entry: name, NSL source, exported function to invoke, a list of keyword-argument dicts, and (optionally) the
value the C-like / component-wise source semantics prescribe for each argument dict (None = not stated here).
Used by C14 (IR well-formedness of everything the compiler accepts), C02 (optimised = unoptimised), C05 (no internal
error) and C04 (expected values)."""

ENTRIES = []


def P(name, src, fn="f", args=({},), expect=None, globals_=None):
    ENTRIES.append(dict(name=name, src=src, fn=fn, args=list(args), expect=expect, globals=globals_ or {}))


P("vec-add", "export function f(float4 a, float4 b) -> float4 { return a + b; }",
  args=[dict(a=[1.0, 2.0, 3.0, 4.0], b=[0.5, 0.5, 0.5, 0.5])], expect=[[1.5, 2.5, 3.5, 4.5]])
P("vec-sub-local", "export function f(float3 a, float3 b) -> float3 { float3 c = a - b; float3 d = c; d = d - b; return c; }",
  args=[dict(a=[1.0, 2.0, 3.0], b=[0.5, 0.5, 0.5])], expect=[[0.5, 1.5, 2.5]])
P("vec-cmp", "export function f(float2 a, float2 b) -> int2 { return a < b; }",
  args=[dict(a=[1.0, 5.0], b=[2.0, 3.0])], expect=[[1, 0]])
P("vec-mul-scalar", "export function f(float3 a, float s) -> float3 { return a * s; }",
  args=[dict(a=[1.0, 2.0, 3.0], s=2.0)], expect=[[2.0, 4.0, 6.0]])
P("vec-div-scalar", "export function f(float3 a, float s) -> float3 { return a / s; }",
  args=[dict(a=[1.0, 2.0, 3.0], s=2.0)], expect=[[0.5, 1.0, 1.5]])
P("swizzle-read", "export function f(float4 a) -> float2 { return a.wy; }",
  args=[dict(a=[1.0, 2.0, 3.0, 4.0])], expect=[[4.0, 2.0]])
P("swizzle-read-repeat", "export function f(float3 a) -> float4 { return a.zzxy; }",
  args=[dict(a=[1.0, 2.0, 3.0])], expect=[[3.0, 3.0, 1.0, 2.0]])
P("swizzle-write", "export function f(float4 a, float2 b) -> float4 { a.zx = b; return a; }",
  args=[dict(a=[1.0, 2.0, 3.0, 4.0], b=[9.0, 8.0])], expect=[[8.0, 2.0, 9.0, 4.0]])
P("swizzle-write-local", "export function f(float4 a, float2 b) -> float4 { float4 c = a; c.yw = b; float4 d = c; d.xy = b; return c + d; }",
  args=[dict(a=[1.0, 2.0, 3.0, 4.0], b=[9.0, 8.0])], expect=[[10.0, 17.0, 6.0, 16.0]])
P("vec-elem-read", "export function f(float4 a, int i) -> float { return a[i] + a[0]; }",
  args=[dict(a=[1.0, 2.0, 3.0, 4.0], i=2)], expect=[4.0])
P("vec-elem-write", "export function f(float4 a, int i, float x) -> float4 { a[i] = x; return a; }",
  args=[dict(a=[1.0, 2.0, 3.0, 4.0], i=2, x=7.0)], expect=[[1.0, 2.0, 7.0, 4.0]])
P("vec-construct", "export function f(float a, float2 b, float c) -> float4 { return float4(a, b, c); }",
  args=[dict(a=1.0, b=[2.0, 3.0], c=4.0)], expect=[[1.0, 2.0, 3.0, 4.0]])
P("vec-copy-independent", "export function f(float3 a) -> float3 { float3 b = a; b[0] = 9.0; return a; }",
  args=[dict(a=[1.0, 2.0, 3.0])], expect=[[1.0, 2.0, 3.0]])
P("mat-add", "export function f(float3x3 a, float3x3 b) -> float3x3 { return a + b; }",
  args=[dict(a=[[1.0, 2.0, 3.0], [4.0, 5.0, 6.0], [7.0, 8.0, 9.0]], b=[[1.0, 0.0, 0.0], [0.0, 1.0, 0.0], [0.0, 0.0, 1.0]])],
  expect=[[[2.0, 2.0, 3.0], [4.0, 6.0, 6.0], [7.0, 8.0, 10.0]]])
P("mat-sub", "export function f(float3x3 a, float3x3 b) -> float3x3 { float3x3 c = a - b; return c; }",
  args=[dict(a=[[1.0, 2.0, 3.0], [4.0, 5.0, 6.0], [7.0, 8.0, 9.0]], b=[[1.0, 0.0, 0.0], [0.0, 1.0, 0.0], [0.0, 0.0, 1.0]])],
  expect=[[[0.0, 2.0, 3.0], [4.0, 4.0, 6.0], [7.0, 8.0, 8.0]]])
P("mat-mul", "export function f(float3x3 a, float3x3 b) -> float3x3 { return a * b; }",
  args=[dict(a=[[1.0, 2.0, 3.0], [4.0, 5.0, 6.0], [7.0, 8.0, 9.0]], b=[[0.0, 1.0, 0.0], [1.0, 0.0, 0.0], [0.0, 0.0, 2.0]])],
  expect=[[[2.0, 1.0, 6.0], [5.0, 4.0, 12.0], [8.0, 7.0, 18.0]]])
P("mat-mul-scalar", "export function f(float3x3 a, float s) -> float3x3 { return a * s; }",
  args=[dict(a=[[1.0, 2.0, 3.0], [4.0, 5.0, 6.0], [7.0, 8.0, 9.0]], s=2.0)],
  expect=[[[2.0, 4.0, 6.0], [8.0, 10.0, 12.0], [14.0, 16.0, 18.0]]])
P("mat-div-scalar", "export function f(float3x3 a, float s) -> float3x3 { return a / s; }",
  args=[dict(a=[[2.0, 4.0, 6.0], [8.0, 10.0, 12.0], [14.0, 16.0, 18.0]], s=2.0)],
  expect=[[[1.0, 2.0, 3.0], [4.0, 5.0, 6.0], [7.0, 8.0, 9.0]]])
P("mat-row", "export function f(float4x4 m, int i) -> float4 { return m[i]; }",
  args=[dict(m=[[1.0, 2.0, 3.0, 4.0], [5.0, 6.0, 7.0, 8.0], [9.0, 10.0, 11.0, 12.0], [13.0, 14.0, 15.0, 16.0]], i=2)],
  expect=[[9.0, 10.0, 11.0, 12.0]])
P("mat-elem", "export function f(float4x4 m, int i, int j) -> float { return m[i][j]; }",
  args=[dict(m=[[1.0, 2.0, 3.0, 4.0], [5.0, 6.0, 7.0, 8.0], [9.0, 10.0, 11.0, 12.0], [13.0, 14.0, 15.0, 16.0]], i=2, j=1)],
  expect=[10.0])
P("mat-elem-write", "export function f(float3x3 m, int i, int j, float x) -> float3x3 { m[i][j] = x; return m; }",
  args=[dict(m=[[1.0, 2.0, 3.0], [4.0, 5.0, 6.0], [7.0, 8.0, 9.0]], i=1, j=2, x=0.5)],
  expect=[[[1.0, 2.0, 3.0], [4.0, 5.0, 0.5], [7.0, 8.0, 9.0]]])
P("mat-row-write", "export function f(float3x3 m, int i, float3 r) -> float3x3 { float3x3 c = m; c[i] = r; return c; }",
  args=[dict(m=[[1.0, 2.0, 3.0], [4.0, 5.0, 6.0], [7.0, 8.0, 9.0]], i=0, r=[0.0, 0.5, 1.0])],
  expect=[[[0.0, 0.5, 1.0], [4.0, 5.0, 6.0], [7.0, 8.0, 9.0]]])
P("mat-construct", """export function f(float a) -> float3x3 {
  float3x3 m = float3x3(float3(a, 2, 3), float3(4, a, 6), float3(7, 8, a));
  float3x3 c = m;
  c[1][1] = 0.0;
  return m;
}""", args=[dict(a=1.5)], expect=[[[1.5, 2.0, 3.0], [4.0, 1.5, 6.0], [7.0, 8.0, 1.5]]])
P("struct-global", """struct S { int a; float b; }
S s;
export function f(int x) -> int { s.a = x; s.b = 2.5; return s.a + 1; }""", args=[dict(x=4)], expect=[5],
  globals_={"s": {"a": 0, "b": 0.0}})
P("struct-local", """struct S { int a; int b; }
export function f(int x) -> int { S s; s.a = x; s.b = s.a + 1; return s.a * s.b; }""", args=[dict(x=4)], expect=[20])
P("array-2d", """export function f(int i, int j, int v) -> int { int[2][3] t; t[i][j] = v; return t[i][j] + t[0][0]; }""",
  args=[dict(i=1, j=2, v=7)], expect=[7])
P("array-arg", "export function f(int i, int v, int[2] arr) -> void { arr[i] = arr[i] + v; }", args=[dict(i=1, v=3, arr=[1, 2])])
P("array-of-vec", """export function f(int i, float2 v) -> float2 { float2[2] t; t[i] = v; return t[i]; }""",
  args=[dict(i=1, v=[1.0, 2.0])], expect=[[1.0, 2.0]])
P("call-overload", """function g(int a) -> int { return a + 1; }
function g(float a) -> float { return a + 0.5; }
export function f(int a, float b) -> float { return g(a) + g(b); }""", args=[dict(a=1, b=1.0)], expect=[3.5])
P("call-vec", """function dbl(float3 a) -> float3 { a = a + a; return a; }
export function f(float3 a) -> float3 { float3 b = dbl(a); return a + b; }""", args=[dict(a=[1.0, 2.0, 3.0])], expect=[[3.0, 6.0, 9.0]])
P("call-recursive", """function fact(int n) -> int { if (n <= 1) return 1; return fact(n - 1) * n; }
export function f(int n) -> int { return fact(n); }""", args=[dict(n=5)], expect=[120])
P("loops-mixed", """export function f(int n) -> int {
  int s = 0;
  for (int i = 0; i < n; ++i) {
    if (i == 2) continue;
    int j = 0;
    while (j < i) { j = j + 1; if (j == 3) break; s = s + j; }
    do { s = s + 1; } while (s < 0)
  }
  return s;
}""", args=[dict(n=5)], expect=[None])
P("store-load-branch", """export function f(int a) -> int { int x = a; if (x) { return 1; } return 2; }""",
  args=[dict(a=1), dict(a=0)], expect=[1, 2])
P("store-load-twice", """export function f(int a) -> int { int s = a; s = s; return s + s; }""", args=[dict(a=3)], expect=[6])
P("store-load-member", """struct S { int a; }
export function f(int a) -> int { S s; s.a = a; S t; t.a = s.a; return t.a; }""", args=[dict(a=3)], expect=[3])
P("store-load-struct", """struct S { int a; }
export function f(int a) -> int { S s; s.a = a; S t; t = s; return t.a; }""", args=[dict(a=3)], expect=[3])
P("const-cast", """export function f(float a) -> float { return a + 1; }""", args=[dict(a=1.5)], expect=[2.5])
P("const-cast-int", """function g(int a) -> int { return a; }
export function f(int a) -> int { return g(2.5) + a; }""", args=[dict(a=1)], expect=[3])
P("uint", """export function f(uint a, uint b) -> uint { uint c = a + b; return c * a; }""", args=[dict(a=2, b=3)], expect=[10])
P("vec-int", """export function f(int3 a, int3 b) -> int3 { return a + b - a; }""", args=[dict(a=[1, 2, 3], b=[4, 5, 6])], expect=[[4, 5, 6]])
P("vec-cmp-eq", """export function f(int3 a, int3 b) -> int3 { return a == b; }""", args=[dict(a=[1, 2, 3], b=[1, 5, 3])], expect=[[1, 0, 1]])
P("void-fn", """int g;
function h(int a) -> void { g = a; }
export function f(int a) -> int { h(a + 1); return g; }""", args=[dict(a=1)], expect=[2], globals_={"g": 0})
P("nested-if-else", """export function f(int a, int b) -> int {
  int r = 0;
  if (a > b) { if (a > 10) r = 1; else r = 2; } else if (a == b) r = 3; else { r = 4; }
  return r;
}""", args=[dict(a=11, b=2), dict(a=3, b=2), dict(a=2, b=2), dict(a=1, b=2)], expect=[1, 2, 3, 4])
P("global-array-struct", """struct S { int[2] v; float w; }
S gs;
int[3] ga;
export function f(int i) -> int { gs.v[i] = ga[i] + 1; ga[i + 1] = gs.v[i]; return ga[i + 1]; }""",
  args=[dict(i=0), dict(i=1)], expect=[6, 8], globals_={"gs": {"v": [0, 0], "w": 0.0}, "ga": [5, 7, 9]})
P("compound-assign", """export function f(int a, float b) -> float { a += 2; a *= 3; b -= 0.5; b /= 2.0; int c = a--; return b + c + a; }""",
  args=[dict(a=1, b=2.5)], expect=[18.0])
P("matrix-cmp-rows", """export function f(float3x3 a) -> float3 { float3 r = a[0] + a[1]; return r * 2.0; }""",
  args=[dict(a=[[1.0, 2.0, 3.0], [4.0, 5.0, 6.0], [7.0, 8.0, 9.0]])], expect=[[10.0, 14.0, 18.0]])

P("call-array-arg", """function pick(int[3] t, int i) -> int { return t[i]; }
export function f(int i) -> int { int[3] t; t[1] = 5; t[2] = 7; return pick(t, i) + pick(t, 1); }""", args=[dict(i=2)], expect=[12])
P("call-struct-arg", """struct S { int a; float b; }
function geta(S s, int k) -> int { return s.a + k; }
export function f(int x) -> int { S s; s.a = x; return geta(s, 1) + geta(s, 2); }""", args=[dict(x=4)], expect=[11])
P("call-array-arg-write", """function bump(int[2] t, int i) -> int { t[i] = t[i] + 1; return t[i]; }
export function f(int i, int[2] arr) -> int { return bump(arr, i) + arr[i]; }""", args=[dict(i=1, arr=[1, 2])], expect=[6])
P("call-mixed-args", """function mix(float2 v, int[2] t, float s) -> float { return v[0] * s + t[1]; }
export function f(float2 v, float s) -> float { int[2] t; t[1] = 3; return mix(v, t, s); }""", args=[dict(v=[1.0, 2.0], s=2.0)], expect=[5.0])


# ---- shapes that need a "second instance" or an interaction of two passes (added after seeded changes were missed)
M3 = [[1.0, 2.0, 3.0], [4.0, 5.0, 6.0], [7.0, 8.0, 9.0]]
P("struct-copy-then-member-store-literal",
  "struct L { int kind; float intensity; }\nexport function f(int n) -> float { L a; a.kind = n; a.intensity = 2.5; L b; b = a; b.kind = 7; b.intensity = 1; return b.kind + b.intensity; }",
  args=[dict(n=3), dict(n=0)], expect=[8.0, 8.0])      # (whether `a` is affected by the store through `b` is not stated by any property: not read)
P("struct-from-call-then-member-store",
  "struct L { int kind; float w; }\nfunction make(int n) -> L { L r; r.kind = n; r.w = 0.5; return r; }\nexport function f(int n) -> float { L b; b = make(n); b.kind = 9; return b.kind + b.w; }",
  args=[dict(n=3)], expect=[9.5])
P("two-functions-rowwise-matrix-ops",
  "function g(float3x3 a, float3x3 b) -> float3x3 { return a - b; }\nfunction h(float3x3 a, float s) -> float3x3 { return a * s; }\nexport function f(float3x3 a, float3x3 b, float s) -> float3x3 { float3x3 c = a + b; return g(c, b) + h(b, s) / s; }",
  args=[dict(a=M3, b=[[1.0, 0.0, 0.0], [0.0, 1.0, 0.0], [0.0, 0.0, 1.0]], s=2.0)],
  expect=[[[2.0, 2.0, 3.0], [4.0, 6.0, 6.0], [7.0, 8.0, 10.0]]])
P("two-functions-scalar-times-matrix",
  "function h(float s, float3x3 a) -> float3x3 { return s * a; }\nexport function f(float3x3 a, float s) -> float3x3 { float3x3 c = s * a; return h(s, a) - c + a; }",
  args=[dict(a=M3, s=2.0)], expect=[M3])
P("loops-in-two-functions-with-break",
  "function first(int n) -> int { int s = 0; for (int i = 0; i < n; ++i) { if (i == 2) { break; } s = s + 10; } int k = 5; return s + k; }\nexport function f(int n) -> int { int t = first(n); int j = 0; while (j < 3) { j = j + 1; if (j == 2) { continue; } t = t + j; } do { t = t + 100; } while (t < 0) return t; }",
  args=[dict(n=4), dict(n=1)], expect=[129, 119])
P("float-counters-division",
  "export function f(int n) -> float { float num; float den; for (int i = 0; i < n; ++i) { num++; } den++; den++; return num / den; }",
  args=[dict(n=3), dict(n=1)], expect=[1.5, 0.5])
P("float-operand-of-logical-op",
  "export function f(float a, float b) -> int { int r = 0; if (a && b) { r = r + 1; } if (a || 0) { r = r + 10; } return r; }",
  args=[dict(a=0.5, b=0.25), dict(a=0.0, b=0.75)], expect=[11, 0])
P("sibling-scopes-reuse-name",
  "export function f(int a) -> int { int r = 0; { int t; t = a; } { int t; r = t + 1; } { int[3] u; u[2] = a; } { int[3] u; r = r + u[2]; } return r; }",
  args=[dict(a=41)], expect=[1])
P("arity-overloads",
  "function scale(float x) -> float { return x * 2.0; }\nfunction scale(float x, float k) -> float { return x * k; }\nexport function f(float x, int k) -> float { return scale(x, k) + scale(x); }",
  args=[dict(x=1.5, k=10)], expect=[18.0])
P("recursion-local-nested-array",
  "function rec(int n) -> int { if (n <= 0) { return 0; } int[2][2] a; int before = a[1][0]; a[1][0] = n * 10; int inner = rec(n - 1); return before + a[1][0] + inner; }\nexport function f(int n) -> int { return rec(n) + rec(n); }",
  args=[dict(n=3)], expect=[120])

P("uint-and-int-casts", "export function f(float a) -> int { uint u = 3; int i = a; uint w = u + 2; return i * 1000 + w; }",
  args=[dict(a=-2.5), dict(a=2.5)])
P("uint-params", "export function f(uint u, int i) -> int { int d = i - 7; uint v = u; if (v > 2) { d = d + 1; } return d + v; }",
  args=[dict(u=5, i=-3), dict(u=0, i=100)])
P("uint-vector-and-int", "export function f(uint3 q, int k) -> int { int s = k - 10; uint t = q.x + q.z; return s + t; }",
  args=[dict(q=[1, 2, 3], k=-5)])

P("empty-function-bodies",
  "function hook(int a) -> void {}\nfunction twice(int a) -> int { hook(a); { } return a * 2; }\nexport function reset() -> void {}\n"
  "export function f(int a) -> int { hook(a); int r = twice(a); hook(r + 1); reset(); return r + a; }",
  args=[dict(a=3), dict(a=-1)], expect=[9, -3])
P("empty-exported-function", "export function f() -> void {}", args=[{}])

PROGRAMS = [(e["name"], e["src"]) for e in ENTRIES]

# Programs the compiler may reject (constructs of the grammar the front end does not carry through today): nothing is
# demanded of a rejection; IF one is accepted, everything that holds for accepted programs is demanded of it.
_n = len(ENTRIES)
P("optional-parameter-omitted",
  "function scale(float a, __optional float b) -> float { return a * 2.0; }\nexport function f(float x) -> float { return scale(x) + scale(x, 3.0); }",
  args=[dict(x=1.5)])
P("optional-parameter-read",
  "function scale(float a, __optional float b) -> float { return a * b; }\nexport function f(float x) -> float { return scale(x); }",
  args=[dict(x=1.5)])
P("optional-parameter-two",
  "function pick(int a, __optional int b, __optional int c) -> int { return a; }\nexport function f(int x) -> int { return pick(x) + pick(x, 1) + pick(x, 1, 2); }",
  args=[dict(x=4)])
P("forward-declaration", "function g(int a) -> int;\nexport function f(int x) -> int { return x + 1; }", args=[dict(x=4)])
P("forward-declaration-called", "function g(int a) -> int;\nexport function f(int x) -> int { return g(x) + 1; }", args=[dict(x=4)])
MAYBE_ENTRIES = ENTRIES[_n:]
del ENTRIES[_n:]
MAYBE_PROGRAMS = [(e["name"], e["src"]) for e in MAYBE_ENTRIES]
