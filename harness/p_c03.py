"""C03 — calls pass arguments by value into isolated frames and reach the chosen overload.

Theorems (Lean, Props/C03.lean): a completed CALL changes nothing of the calling activation but its destination
register (`C03_call_isolated`), the callee runs in a fresh frame (`C03_callee_fresh_frame`), the reference semantics is
by-value (`C03_reference_by_value`) and — by the simulation theorem — the VM agrees with it for every call graph of the
scalar core incl. recursion (`C03_vm_agrees_with_reference`); the lowering names exactly the resolved callee
(`C03_callee_is_resolved_name`).

Tie to the code: programs of harness/gen_calls.py (maker `calls`): leaf helpers, overload families that differ only in
parameter TYPES (same parameter names, same return type; int/float/vector), direct recursion, callees that assign to
their scalar and vector parameters (element and swizzle writes) and locals; the exported caller reads every own
parameter and local after every call (nested and repeated calls).  Oracle: the harness's by-value reference
interpreter on the real pipeline, optimisation off and on; host level: vector arguments handed to Invoke are unchanged
afterwards.  Correspondence: real VM = Lean VM∘lower; Python refsem = Lean CoreSem."""
import common, implrun, progfam, proglib, gen_calls
import p_c01

RULE = ("programs of gen_calls.py `calls` (1-3 helper families with same-name overloads, optional recursive helper, exported caller with "
        "2-5 calls, nesting depth <= 2, reads of every own parameter/local after each call) + the scalar-core generator with calls; "
        "4 input vectors each. Non-trivial: in-domain input of a program with at least one call (all are); distinct = distinct (source, input)")
EXHAUSTIVE = {"quick": False, "thorough": False}
ASSUMPTIONS = p_c01.ASSUMPTIONS + ["mutual recursion needs a forward declaration, which the front end does not support (not generated)",
                                   "arrays and structs are by reference at the host boundary and are not passed to internal calls (DESIGN §7)"]
TRUSTED = p_c01.TRUSTED + ["harness/gen_calls.py binds every generated call to the overload the language rules select (checked: lang.calls_consistent)"]

N = {"quick": 500, "thorough": 20000}


def explore(run, scale=1):
    n = N[run.tier] * scale
    spec = [(n * 6 // 10, None, "calls"), (n * 2 // 10, dict(vectors=False), "calls"),
            (n * 2 // 10, dict(arrays=False, structs=False, max_depth=2), None)]
    for rec in progfam.evaluate(run, "C03", spec, want=("ref", "model", "opt", "struct")):
        if rec.get("host_vec_changed"):
            run.fail("host-vector", dict(source=rec["src"], seed=rec["seed"], index=rec["index"], opts=rec.get("opts"), maker=rec.get("maker"), fn=rec["fn"]),
                     "a vector argument object handed to Invoke was modified: %s" % rec["host_vec_changed"][:2], key="host-vector-modified")
        p_c01.judge(run, rec, "C03")


def search(run):
    explore(run, scale=6 if run.tier == "quick" else 2)


matches = p_c01.matches
replay = p_c01.replay
