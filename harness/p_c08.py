"""C08 — binary operators group by the declared precedence, left to right.

Correspondence: tree shape produced by the real lexer+parser (NslParser().Parse on a whole module) against the
Lean model `Prec.parseFull` driven by the precedence table the translator extracted from parser.py (driver `prec`).
Oracle (independent of model and table): precedence climbing with the six levels of the property statement.
Second observable (the statement says "is evaluated with the grouping"): the VALUE the real compiler + VM compute for every
operator pair, sampled/all triples and every compound assignment `x op= a o b [o c]` on eight operand tuples, against the
value of the declared grouping (C-like int semantics; the right-hand side of an assignment, plain or compound, as a whole)."""
import itertools
import common, implrun

OPS = ["||", "&&", "==", "!=", "<", "<=", ">", ">=", "+", "-", "*", "/", "%"]
LEVEL = {"||": 1, "&&": 2, "==": 3, "!=": 3, "<": 4, "<=": 4, ">": 4, ">=": 4, "+": 5, "-": 5, "*": 6, "/": 6, "%": 6}
RULE = ("every single operator, every ordered pair (169) and triple (2197) of the 13 binary operators, unparenthesised and with each "
        "parenthesisation, in 6 layouts (quick: all pairs x all shapes x all layouts, all triples unparenthesised + a seeded sample of "
        "shapes/layouts; thorough: everything), as `return E;` and as right-hand side of `x = E;`; random chains of up to 8 operators "
        "with nested parentheses. Non-trivial: at least two operators; distinct = distinct source text")
EXHAUSTIVE = {"quick": False, "thorough": True}
ASSUMPTIONS = ["PLY's LALR construction is not modelled: the model applies the rule PLY uses to resolve a shift/reduce conflict, and the "
               "table obligation (GenC08) checks the precondition under which PLY applies the precedence table at all",
               "layouts vary whitespace between the tokens of a fixed token sequence (DESIGN.md §7)"]
TRUSTED = ["Nsl/Model/Prec.lean (operator-precedence parser over the extracted table)"]
LAYOUTS = [" ", "\n", "\t", "\n\n", "\n      ", ""]


# ---- chains: nested lists  [operand, op, operand, op, ...]; operand = str | chain (parenthesised)
def toks(chain):
    out = []
    for x in chain:
        if isinstance(x, list):
            out += ["("] + toks(x) + [")"]
        else:
            out.append(x)
    return out


def climb(chain):
    """Reference grouping: precedence climbing, left associative; returns s-expression string."""
    items = [climb(x) if isinstance(x, list) else x for x in chain]
    def parse(pos, minlvl):
        lhs = items[pos]; pos += 1
        while pos < len(items) and LEVEL[items[pos]] >= minlvl:
            o = items[pos]
            rhs, pos = parse(pos + 1, LEVEL[o] + 1)
            lhs = "(%s %s %s)" % (o, lhs, rhs)
        return lhs, pos
    t, p = parse(0, 1)
    assert p == len(items)
    return t


def shapes(n_ops):
    """Parenthesisations of a chain with n_ops operators over atoms a,b,c,d (as index structures)."""
    atoms = ["a", "b", "c", "d", "e", "f", "g", "h", "i"][: n_ops + 1]
    if n_ops == 1:
        return [lambda o: ["a", o[0], "b"], lambda o: [["a", o[0], "b"]]]
    if n_ops == 2:
        return [lambda o: ["a", o[0], "b", o[1], "c"],
                lambda o: [["a", o[0], "b"], o[1], "c"],
                lambda o: ["a", o[0], ["b", o[1], "c"]],
                lambda o: [["a", o[0], "b", o[1], "c"]]]
    if n_ops == 3:
        return [lambda o: ["a", o[0], "b", o[1], "c", o[2], "d"],
                lambda o: [["a", o[0], "b"], o[1], "c", o[2], "d"],
                lambda o: ["a", o[0], ["b", o[1], "c"], o[2], "d"],
                lambda o: ["a", o[0], "b", o[1], ["c", o[2], "d"]],
                lambda o: [["a", o[0], "b", o[1], "c"], o[2], "d"],
                lambda o: ["a", o[0], ["b", o[1], "c", o[2], "d"]],
                lambda o: [["a", o[0], "b"], o[1], ["c", o[2], "d"]],
                lambda o: [[["a", o[0], "b"], o[1], "c"], o[2], "d"],
                lambda o: ["a", o[0], ["b", o[1], ["c", o[2], "d"]]]]
    raise ValueError


def random_chain(rng, depth=0):
    n = rng.choice([1, 2, 3, 4, 6, 8]) if depth == 0 else rng.choice([1, 1, 2, 3])
    out = []
    for i in range(n + 1):
        if depth < 3 and rng.random() < 0.25:
            out.append(random_chain(rng, depth + 1))
        else:
            out.append(rng.choice("abcdefgh"))
        if i < n:
            out.append(rng.choice(OPS))
    return out


def render(tokens, sep, rng):
    if sep == "":
        # no space wherever the token sequence is unaffected: keep one blank only between two word tokens
        out = ""
        for t in tokens:
            if out and (out[-1].isalnum() and t[0].isalnum()):
                out += " "
            out += t
        return out
    if sep == "mix":
        return "".join(t + rng.choice(LAYOUTS[:5]) for t in tokens)
    return sep.join(tokens)


_parser = None


def impl_tree(src):
    """Parse a whole module with the real parser; return the s-expression of the first return / assignment expression."""
    global _parser
    A = implrun.ast_mod
    from nsl.parser import NslParser
    from nsl import op as nop
    if _parser is None:
        with implrun.quiet():
            _parser = NslParser()
    try:
        with implrun.quiet():
            tree = _parser.Parse(src)
    except SystemExit:
        _parser = None
        return "syntax-error"
    if tree is None:
        _parser = None
        return "syntax-error"
    found = []
    def visit(n, ctx=None):
        if isinstance(n, A.ReturnStatement) and not found:
            found.append(n.GetExpression())
        elif isinstance(n, A.ExpressionStatement) and not found:
            found.append(n.GetExpression())
        else:
            n.ForEachChild(visit)
    visit(tree)
    def sx(e):
        if isinstance(e, A.AssignmentExpression):
            return "(= %s %s)" % (sx(e.GetLeft()), sx(e.GetRight()))
        if isinstance(e, A.BinaryExpression):
            return "(%s %s %s)" % (nop.OpToStr(e.GetOperation()), sx(e.GetLeft()), sx(e.GetRight()))
        if isinstance(e, A.PrimaryExpression):
            return e.GetName()
        if isinstance(e, A.LiteralExpression):
            return repr(e.GetValue())
        return "?" + type(e).__name__
    return sx(found[0]) if found else "no-expression"


def cases(run):
    rng = run.rng
    thorough = run.tier == "thorough"
    for o in OPS:
        for sh in shapes(1):
            for sep in LAYOUTS:
                yield sh([o]), sep
    for o in itertools.product(OPS, repeat=2):
        for sh in shapes(2):
            for sep in LAYOUTS:
                yield sh(o), sep
    sh3 = shapes(3)
    for o in itertools.product(OPS, repeat=3):
        if thorough:
            for sh in sh3:
                for sep in LAYOUTS:
                    yield sh(o), sep
        else:
            yield sh3[0](o), " "
            yield rng.choice(sh3[1:])(o), rng.choice(LAYOUTS)
    for _ in range(20000 if thorough else 2500):
        yield random_chain(rng), rng.choice(LAYOUTS + ["mix"])
    # operands that are LITERALS (ints, negative ints — one token in this language —, floats with exponents): the grouping must not
    # depend on what kind of operand stands between the operators
    lits = ["1", "7", "-7", "-1", "2.5", "1.0", "1e+20", "3"]
    for o in itertools.product(OPS, repeat=2):
        pool = [("a", "7", "3"), ("a", "-7", "3"), ("a", "1e+20", "1.0"), ("2.5", "b", "-1"), ("-7", "3", "c")]
        for atoms in (pool if thorough else rng.sample(pool, 3)):
            yield [atoms[0], o[0], atoms[1], o[1], atoms[2]], " "
            yield [[atoms[0], o[0], atoms[1]], o[1], atoms[2]], " "
    for _ in range(4000 if thorough else 500):
        n = rng.choice([2, 3, 4])
        ch = []
        for i in range(n + 1):
            ch.append(rng.choice(lits) if rng.random() < .6 else rng.choice("abc"))
            if i < n: ch.append(rng.choice(OPS))
        yield ch, " "


def explore(run, widen=1):
    implrun.load()
    d = common.Driver()
    batch, n = [], 0
    def flush():
        ans = d.ask_many(["prec " + " ".join(toks(c)) for c, _, _, _, _ in batch])
        for (c, sep, form, src, impl), a in zip(batch, ans):
            want = climb(c)
            nops = sum(1 for t in toks(c) if t in LEVEL)
            run.case(src, nontrivial=nops >= 2,
                     sample=dict(source=src, tree=impl) if (nops == 3 and "(" in src and len(run.samples) < 3) or (nops > 5 and len(run.samples) < 5) else None)
            run.count("ops:%d" % min(nops, 9)); run.count("form:" + form); run.count("layout:" + repr(sep))
            got = impl
            if form == "assign":
                if impl.startswith("(= x ") and impl.endswith(")"):
                    got = impl[5:-1]
                else:
                    got = "assignment-rhs-does-not-extend:" + impl
            if got != a:
                run.mismatch("tree", dict(source=src), a, got)
            if got != want:
                run.fail("grouping", dict(source=src, expected=want), "%r is grouped as %s, the declared precedence gives %s" % (src, got, want),
                         key="grouping")
        batch.clear()
    for c, sep in cases(run):
        e = render(toks(c), sep, run.rng)
        form = "return" if n % 3 else "assign"
        n += 1
        if form == "return":
            src = "function f() -> int { return %s%s; }" % ("\n" if sep.startswith("\n") else " ", e)
        else:
            src = "function f() -> int { x =%s%s; return 0; }" % (sep if sep in LAYOUTS[:5] else " ", e)
        batch.append((c, sep, form, src, impl_tree(src)))
        if len(batch) >= 2000:
            flush()
    flush()
    d.close()
    value_leg(run)


# ---- second observable of the property: the VALUE the VM computes on operands that tell the groupings apart

def climb_tree(chain):
    items = [climb_tree(x) if isinstance(x, list) else x for x in chain]
    def parse(pos, minlvl):
        lhs = items[pos]; pos += 1
        while pos < len(items) and LEVEL[items[pos]] >= minlvl:
            o = items[pos]
            rhs, pos = parse(pos + 1, LEVEL[o] + 1)
            lhs = (o, lhs, rhs)
        return lhs, pos
    return parse(0, 1)[0]


class _Skip(Exception):
    pass


def ev(t, env):
    """C-like int semantics of the statement; division by zero and % on negative operands are outside the compared domain"""
    if isinstance(t, str): return env[t]
    o, l, r = t
    a, b = ev(l, env), ev(r, env)
    if o == "+": return a + b
    if o == "-": return a - b
    if o == "*": return a * b
    if o == "/":
        if b == 0: raise _Skip()
        q = abs(a) // abs(b); return q if (a < 0) == (b < 0) else -q
    if o == "%":
        if b <= 0 or a < 0: raise _Skip()
        return a % b
    if o == "&&": return int(bool(a) and bool(b))
    if o == "||": return int(bool(a) or bool(b))
    return int({"<": a < b, "<=": a <= b, ">": a > b, ">=": a >= b, "==": a == b, "!=": a != b}[o])


VALS = [dict(a=7, b=3, c=2, d=5), dict(a=2, b=5, c=3, d=1), dict(a=9, b=4, c=6, d=2), dict(a=1, b=8, c=2, d=3), dict(a=6, b=6, c=3, d=2),
        dict(a=5, b=2, c=9, d=4), dict(a=0, b=3, c=1, d=7), dict(a=12, b=5, c=0, d=1)]
COMPOUND = {"+=": "+", "-=": "-", "*=": "*", "/=": "/"}      # the assignment_op production has no %=


def value_leg(run):
    rng = run.rng
    progs = []           # (source, expected tree, kind)
    for o in itertools.product(OPS, repeat=2):
        flat = "a %s b %s c" % o
        t = climb_tree(["a", o[0], "b", o[1], "c"])
        progs.append(("export function f(int a, int b, int c, int d) -> int { return %s; }" % flat, t, "return"))
        progs.append(("export function f(int a, int b, int c, int d) -> int { int x = d; x = %s; return x; }" % flat, t, "assign"))
    for cop, bop in COMPOUND.items():
        for o in OPS:
            # x cop a o b  ==  x bop (a o b): the right-hand side extends over the whole following expression
            progs.append(("export function f(int a, int b, int c, int d) -> int { int x = d; x %s a %s b; return x; }" % (cop, o), (bop, "d", (o, "a", "b")), "compound"))
        for o in itertools.product(OPS, repeat=2):
            if run.tier == "thorough" or rng.random() < .25:
                progs.append(("export function f(int a, int b, int c, int d) -> int { int x = d; x %s a %s b %s c; return x; }" % ((cop,) + o),
                              (bop, "d", climb_tree(["a", o[0], "b", o[1], "c"])), "compound"))
    triples = list(itertools.product(OPS, repeat=3))
    if run.tier != "thorough": triples = rng.sample(triples, 400)
    for o in triples:
        progs.append(("export function f(int a, int b, int c, int d) -> int { return a %s b %s c %s d; }" % o, climb_tree(["a", o[0], "b", o[1], "c", o[2], "d"]), "return"))
    for src, tree, kind in progs:
        c = implrun.compile_src(src)
        if c[0] != "ok":
            run.case((src, "value"), nontrivial=True)
            run.fail("value", dict(source=src), "a plain int expression does not compile: %s\n%s" % (c[1:3], src), key="value:rejected"); continue
        prog = implrun.link([c[1].IRModule])
        for env in VALS:
            try:
                want = ev(tree, env)
            except _Skip:
                run.count("value:outside-domain"); continue
            r = implrun.invoke(implrun.new_vm(prog), "f", dict(env), limit=3)
            run.case((src, tuple(env.values())), nontrivial=True); run.count("value:" + kind)
            if r[0] != "ok" or r[1] != want:
                run.fail("value", dict(source=src, args=env, expected=want, got=str(r[:2])),
                         "f(%s) = %s, the declared grouping gives %s\n%s" % (env, r[:2], want, src), key="value:" + kind)
                break


def search(run):
    pass   # explore already enumerates every pair and triple


def matches(entry, failure):
    return entry.get("matcher") == failure["key"]


def shrink(f):
    return f


def replay(obj):
    implrun.load()
    x = obj["input"]
    if "args" in x:
        c = implrun.compile_src(x["source"])
        if c[0] != "ok": return False, "does not compile: %s" % (c[1:3],)
        r = implrun.invoke(implrun.new_vm(implrun.link([c[1].IRModule])), "f", dict(x["args"]), limit=3)
        return r[0] == "ok" and r[1] == x["expected"], "f(%s) = %s, declared grouping: %s" % (x["args"], r[:2], x["expected"])
    got = impl_tree(x["source"])
    if got.startswith("(= x "): got = got[5:-1]
    ok = got == x["expected"]
    return ok, "%r parses as %s; declared precedence: %s" % (x["source"], got, x["expected"])
