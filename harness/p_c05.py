"""C05 — accepted programs do not go wrong.   (partial)

Theorems (Lean, Props/C05.lean): scalar opcodes on numbers and scalar casts of finite numbers never fail internally;
NEW_VARIABLE has no failure site; for the scalar core a finished reference run is a finished VM run
(`C05_scalar_core_runs`).  The typing invariant over the whole language (`C05_Statement`) is not proved.

Tie to the code: for every program the FRONT END accepts (parser + every AST pass), at both optimisation settings:
lowering and the IR passes must return a module, linking must succeed, and running every function on inputs of the
declared parameter types (globals set to values of their types) must end in a value, a ZeroDivisionError or an
IndexError of an indexing opcode — any other exception, and any exception while lowering/optimising/linking, is an
internal error, reported with its class and raising site.  Programs: the 13 x 14 x 14 operator grid over the spellable
types (every binary operator on every pair of scalar/vector/matrix types), constructor/cast/swizzle/index probes on
every type, float literals in int positions (implicit conversions folded by the optimiser), every swizzle mask of 1-4 letters
over xyzw/rgba on every type as read and as write target (sampled in the quick tier), all generators of the other checks, the
whole-language corpus, and a deliberately ill-typed stream (which must be rejected by the front end, not later)."""
import copy, itertools, random, zlib
import common, implrun, progfam, proglib, gen, gen_calls, gen_vec, wholelang, lang

RULE = ("operator grid: `function f(L a, R b) -> T { return a OP b; }` for 13 operators x 14 x 14 spellable types (result type from the typing "
        "rule); probes: ++/-- in every form on every type and on aggregates, constructors with right/wrong component counts, `T(x)` conversions, swizzles and indices on every primitive type, "
        "aggregates in calls and assignments; generated programs of all generators; 3 type-correct inputs per function. Non-trivial: the "
        "front end accepted the program and it was executed; distinct = distinct (source, optimisation, input)")
EXHAUSTIVE = {"quick": False, "thorough": False}
ASSUMPTIONS = ["'accepted' = the parser and every AST pass succeed (DESIGN §1); an exception from lowering or an IR pass after that is an internal error",
               "defined run-time failures: ZeroDivisionError, IndexError raised by an indexing opcode; a negative dynamic index is avoided by the inputs",
               "inputs: ints in a small range, dyadic finite floats, uint >= 0, vectors/matrices/arrays/structs of those",
               "the VM model converts every integer to a float (Float.ofInt is total); CPython raises OverflowError for |i| >= 2^1024, which the "
               "VM's unbounded ints reach after leaving the 32-bit range by a thousand bits (repeated squaring in a loop): such a failure of the "
               "real VM is reported (known finding) but is not counted against the instance of the typing theorem"]
TRUSTED = ["harness/implrun.classify_runtime (exception -> class/site)"]

TYPES = ["int", "uint", "float", "int2", "int3", "int4", "float2", "float3", "float4", "uint2", "uint3", "uint4", "float3x3", "float4x4"]
OPS = ["+", "-", "*", "/", "%", "<", "<=", ">", ">=", "==", "!=", "&&", "||"]
N = {"quick": 300, "thorough": 12000}


def value_of(rng, t):
    if t == "int": return rng.choice([0, 1, 2, 3, -1, 5, 7, -7])
    if t == "uint": return rng.choice([0, 1, 2, 3, 5, 7])
    if t == "float": return rng.choice([0.0, 1.0, -1.0, 0.5, 2.5, 4.0])
    if t.endswith("x3") or t.endswith("x4"):
        n = int(t[-1]); return [[value_of(rng, "float") for _ in range(n)] for _ in range(n)]
    base, n = t[:-1], int(t[-1])
    return [value_of(rng, base) for _ in range(n)]


def frontend(src):
    """'accept' / 'reject' / 'syntax' — parser + every AST pass, nothing else"""
    from nsl import Compiler
    try:
        with implrun.quiet():
            c = Compiler.Compiler()
            tree = c.parser.Parse(src)
            if tree is None: return "syntax"
            for p in c.astPasses:
                if not p.Process(tree): return "reject"
    except SystemExit:
        return "syntax"
    except RecursionError:
        return "reject"
    except Exception:
        return "reject"
    return "accept"


def probes():
    """(source, param types dict or None) — one exported function f per probe"""
    out = []
    for o in OPS:
        for l, r in itertools.product(TYPES, repeat=2):
            for ret in ({l, r, "int", "float"} | ({l[:-1] + r[-1]} if l[-1].isdigit() and r[-1].isdigit() and "x" not in l + r else set())):
                if ret in TYPES and (ret in (l, r) or o in ("<", "<=", ">", ">=", "==", "!=")):
                    out.append(("export function f(%s a, %s b) -> %s { return a %s b; }" % (l, r, ret, o), dict(a=l, b=r)))
                    break
            out.append(("export function f(%s a, %s b) -> void { %s t = a; t = a %s b; }" % (l, r, l, o), dict(a=l, b=r)))
    for t in TYPES:
        out.append(("export function f(%s a) -> %s { %s t; return t; }" % (t, t, t), dict(a=t)))
        out.append(("export function f(%s a) -> %s { return %s(a); }" % (t, t, t), dict(a=t)))
        out.append(("export function f(int a) -> %s { return %s(a); }" % (t, t), dict(a="int")))
        out.append(("export function f(float a) -> %s { return %s(a, a); }" % (t, t), dict(a="float")))
        out.append(("export function f(float a) -> %s { return %s(a, a, a, a); }" % (t, t), dict(a="float")))
        out.append(("export function f(%s a) -> float { return a.x; }" % t, dict(a=t)))
        out.append(("export function f(%s a) -> void { a.x = 1; }" % t, dict(a=t)))
        out.append(("export function f(%s a) -> void { a.xy = a.yx; }" % t, dict(a=t)))
        out.append(("export function f(%s a, int i) -> void { a[i] = a[0]; }" % t, dict(a=t, i="idx")))
        out.append(("export function f(%s a, int i) -> float { return a[i][0]; }" % t, dict(a=t, i="idx")))
        out.append(("export function f(%s a) -> int { %s[2] t; t[1] = a; t[0] = t[1]; return 1; }" % (t, t), dict(a=t)))
        out.append(("struct S { %s m; int k; }\nexport function f(%s a) -> int { S s; s.m = a; S u; u = s; return u.k; }" % (t, t), dict(a=t)))
        out.append(("function g(%s p) -> %s { return p; }\nexport function f(%s a) -> %s { return g(a); }" % (t, t, t, t), dict(a=t)))
        out.append(("function g(%s[2] p, int i) -> %s { return p[i]; }\nexport function f(%s a, int i) -> %s { %s[2] t; t[i] = a; return g(t, i); }" % (t, t, t, t, t), dict(a=t, i="idx")))
        out.append(("export function f(%s a, uint u) -> void { a = a; u = u + 1; ++u; u--; }" % t, dict(a=t, u="uint")))
    out += [("export function f(float a) -> int { return int(a); }", dict(a="float")), ("export function f(int a) -> float { return float(a) + 1; }", dict(a="int")),
            ("export function f(int a) -> int { return a / (a - a); }", dict(a="int")), ("export function f(int a) -> int { int[2] t; return t[a + 5]; }", dict(a="int")),
            ("export function f(float4 v, int a) -> float { return v[a + 9]; }", dict(v="float4", a="int"))]
    return out


def conv_probes():
    """float literals (integral and not) in positions where the front end converts implicitly to int/uint, the converted value
    then used where only an int works (index, %, array subscript) — the folded constant must be an int at both settings"""
    out = []
    for k in ("0.0", "1.0", "2.0", "3.0", "2.5", "1", "0.5"):
        out += [("function pick(int i, float4 v) -> float { return v[i]; }\nexport function f(float4 v) -> float { return pick(%s, v); }" % k, dict(v="float4")),
                ("function pick(int i, int[4] t) -> int { return t[i]; }\nexport function f(int a) -> int { int[4] t; t[1] = a; return pick(%s, t); }" % k, dict(a="int")),
                ("function pick(uint i, int[4] t) -> int { return t[i]; }\nexport function f(int a) -> int { int[4] t; t[1] = a; return pick(%s, t); }" % k, dict(a="int")),
                ("export function f(float4 v) -> float { int2 k = int2(%s, 3.0); return v[k.x] + v[k.y]; }" % k, dict(v="float4")),
                ("export function f(float4 v) -> float { uint2 k = uint2(%s, 1.0); return v[k.x] + v[k.y]; }" % k, dict(v="float4")),
                ("export function f(int a) -> int { int[4] t; t[%s] = a; return t[%s]; }" % (k, k), dict(a="int")),
                ("function m(int i, int j) -> int { return i %% j; }\nexport function f(int a) -> int { return m(a, %s) + m(%s, 3); }" % (k if k not in ("0.0", "0.5") else "2.0", k), dict(a="int")),
                ("function h(int i) -> int { int[4] t; t[i] = i; return t[i]; }\nexport function f(int a) -> int { return h(%s) + h(1); }" % k, dict(a="int")),
                ("function h(int3 i, float4 v) -> float { return v[i.x] + v[i.z]; }\nexport function f(float4 v) -> float { return h(int3(%s, 0.0, 2.0), v); }" % k, dict(v="float4")),
                ("export function f(float4x4 q) -> float { int i = 1; i = %s; return q[i][i]; }" % k, dict(q="float4x4"))]
    return out


def affix_probes():
    """++ / -- (prefix and postfix, as a statement and as a value) on a parameter and on a local of every spellable type, and on
    local arrays and structs"""
    out = []
    for t in TYPES:
        for form in ("a++", "++a", "a--", "--a"):
            out.append(("export function f(%s a) -> %s { %s; return a; }" % (t, t, form), dict(a=t)))
            out.append(("export function f(%s a) -> %s { %s b = %s; return b; }" % (t, t, t, form), dict(a=t)))
            out.append(("export function f(%s q) -> %s { %s a; %s; a = q; return a; }" % (t, t, t, form), dict(q=t)))
    for decl in ("int[3] a", "float[2][2] a", "S a", "S[2] a"):
        for form in ("a++", "--a"):
            out.append(("struct S { int k; float w; }\nexport function f(int q) -> int { %s; %s; return q; }" % (decl, form), dict(q="int")))
    return out


def swizzle_probes():
    """every mask of 1..4 letters over xyzw and over rgba on every spellable type, as a read and as a write target"""
    out = []
    for letters in ("xyzw", "rgba"):
        for n in (1, 2, 3, 4):
            for m in itertools.product(letters, repeat=n):
                mask = "".join(m)
                for t in TYPES:
                    comp = "float" if t.startswith("float") else ("uint" if t.startswith("uint") else "int")
                    r = comp if n == 1 else "%s%d" % (comp, n)
                    out.append(("export function f(%s a) -> %s { return a.%s; }" % (t, r, mask), dict(a=t)))
                    out.append(("export function f(%s a, %s b) -> %s { a.%s = b; return a; }" % (t, r, t, mask), dict(a=t, b=r)))
    return out


# Three classes of accepted programs that DO go wrong; all are recorded as known findings (see known_findings.json) and are
# identified by these probe families, so that any other internal failure is still reported.
SHAPE_MISMATCH = [   # a value of another SHAPE than the declared type is assigned / returned (the front end never compares them), then used
    ("export function f(int a, int4 b) -> int { int t = a; t = a * b; return t + 1; }", dict(a="int", b="int4")),
    ("function g(float3 v) -> float { return v; }\nexport function f(float3 v) -> float { return g(v) * 2.0; }", dict(v="float3")),
    ("export function f(float2 a, float b) -> float2 { a.xy = b; return a; }", dict(a="float2", b="float")),
    ("export function f(float4x4 m, float4 v) -> float { float4 w = m; return w.x + 1.0; }", dict(m="float4x4", v="float4")),
]
MISSING_RETURN = [   # a non-void function that can end without returning a value (or a void result that is used): the value is None
    ("function g(int a) -> int { if (a > 0) { return 1; } }\nexport function f(int x) -> int { return g(x - 100) + 1; }", dict(x="int")),
    ("function g(int a) -> int { }\nexport function f(int x) -> int { return g(x) + 1; }", dict(x="int")),
    ("function g(int a) -> int { return; }\nexport function f(int x) -> int { return g(x) * 2; }", dict(x="int")),
    ("function g(int a) -> void { return; }\nexport function f(int x) -> int { int r = g(x); return r + 1; }", dict(x="int")),
    ("function g(float a) -> float { while (a > 1000.0) { return a; } }\nexport function f(float x) -> float { return g(x) + 1.0; }", dict(x="float")),
]
NONFINITE_CAST = [   # float -> int conversion of an infinity or a NaN (math.floor raises)
    ("export function f(float a) -> int { int i = a; return i; }", dict(a="float")),
    ("export function f(float a, int[4] t) -> int { return t[a * a]; }", dict(a="float", t="int[4]")),
    ("export function f(float3 v) -> int3 { int3 k = v; return k; }", dict(v="float3")),
]


ILL_TYPED = ["export function f(int a) -> int { return b; }", "export function f(float2 a, float3 b) -> float2 { return a + b; }",
             "export function f(int a) -> int { break; return a; }", "export function f(int a) -> int { int a = 1; return a; }",
             "export function f(float3 a) -> float { return a.w; }", "export function f(int[2] t) -> int { return t[2]; }",
             "export function f(float4x4 m, float3 v) -> float3 { return m * v; }", "export function f(int a) -> int { return g(a); }",
             "export function f(float2 a) -> float2 { return a * a; }", "export function f(int[2] t, float x) -> int { return t[x]; }"]


_drv = None


def irtype(run, module, origin, src, opt, expect_ok=False):
    """The verified IR type checker (Props/C05IR.lean) on the dump of the real IR: `full=yes` is a machine-checked proof that this
    module never fails internally on typed inputs (except floor of a non-finite float), `strict=yes` without exception."""
    global _drv
    if _drv is None: _drv = common.Driver()
    try:
        ps = implrun.program_sexp(module.Functions, module.Globals)
    except BaseException as e:
        run.count("irtype:undumpable"); return None
    if _drv.ask("irprog " + ps) != "ok":
        run.count("irtype:driver-cannot-parse"); return None
    ans = _drv.ask("irtylayers")
    full = "full=yes" in ans
    run.count("irtype:%s:%s" % (origin, "strict" if "strict=yes" in ans else ("proved-up-to-nonfinite-cast" if full else "REJECTED")))
    if not full:
        detail = _drv.ask("irtycheck")
        if expect_ok:
            run.mismatch("irtype-rejects-well-typed-program", dict(source=src, optimize=opt), detail[:200], "front end accepted; generated as well-typed")
        elif len(run.notes) < 12:
            run.notes.append("not type-correct IR (front end accepted): %s | %s" % (detail[:120], src[:160].replace("\n", " ")))
    return full


def run_probe(run, src, ptys, origin, inputs=None):
    fe = frontend(src)
    if fe == "syntax":
        run.count(origin + ":syntax-error"); return
    if fe != "accept":
        run.case((src, "fe"), nontrivial=False); run.count(origin + ":rejected-by-front-end"); return
    run.count(origin + ":accepted")
    for opt in (False, True):
        inp = dict(source=src, optimize=opt)
        c = implrun.compile_src(src, optimize=opt)
        if c[0] != "ok":
            run.case((src, opt, "compile"), nontrivial=True)
            run.fail("after-front-end", dict(inp, site=list(c[1]), message=c[2]),
                     "accepted by the front end, but optimize=%s compilation fails in %s (%s): %s\n%s" % (opt, c[1][1], c[1][0], c[2][:120], src[:300]),
                     key="internal:lowering:%s@%s" % (c[1][0], c[1][1]))
            continue
        try:
            prog = implrun.link([c[1].IRModule])
        except BaseException as e:
            run.case((src, opt, "link"), nontrivial=True)
            run.fail("link", inp, "linking the accepted program fails: %s" % type(e).__name__, key="internal:link:" + type(e).__name__); continue
        typed = irtype(run, c[1].IRModule, origin, src, opt)
        if ptys is None: continue
        rng = random.Random(zlib.crc32(src.encode()) & 0xffff)      # stable across processes (str hashes are salted)
        for k in range(3 if inputs is None else len(inputs)):
            args = {n: (rng.randrange(0, 2) if t == "idx" else value_of(rng, t)) for n, t in ptys.items()} if inputs is None else copy.deepcopy(inputs[k])
            vm = implrun.new_vm(prog)
            r = implrun.invoke(vm, "f", copy.deepcopy(args), limit=3)
            run.case((src, opt, k), nontrivial=True, sample=dict(source=src, optimize=opt, args=args, outcome=r[0]) if (len(run.samples) < 3 and "float3x3" in src and opt) else None)
            run.count("outcome:" + r[0])
            if r[0] == "internal":
                if typed and origin != "nonfinite-cast" and r[1] != "OverflowError@CAST":
                    run.mismatch("theorem-instance:C05_typed_ir", dict(inp, args=args), "irTypeCheck accepts the IR", "the real VM fails internally: %s" % (r[1],))
                fam = origin if origin in ("shape-mismatch", "nonfinite-cast", "missing-return") else "internal:run"
                run.fail("run-time", dict(inp, args={k: repr(v) for k, v in args.items()}, site=r[1]), "optimize=%s f(%s) fails with %s\n%s" % (opt, args, r[1], src[:300]), key=fam + ":" + r[1])
                break


def judge_generated(run, rec):
    if not progfam.account(run, rec): return
    src = rec["src"]
    base = dict(source=src, seed=rec["seed"], index=rec["index"], opts=rec.get("opts"), maker=rec.get("maker"))
    for tag, opt in (("0", False), ("1", True)):
        if not rec.get("accept" + tag):
            rj = rec.get("reject" + tag) or [["?", "?", "?"], ""]
            run.case((src, opt, "compile"), nontrivial=True)
            run.fail("after-front-end", dict(base, optimize=opt, site=rj[0]), "a well-typed generated program does not compile (optimize=%s): %s\n%s" % (opt, rj, src[:600]),
                     key="internal:lowering:%s@%s" % (rj[0][0], rj[0][1]))
            continue
        ity = rec.get("irtype" + tag)
        typed = ity is not None and "full=yes" in ity
        if ity is not None:
            run.count("irtype:generated:%s" % ("strict" if "strict=yes" in ity else ("proved-up-to-nonfinite-cast" if typed else "REJECTED")))
            if not typed:
                run.mismatch("irtype-rejects-well-typed-program", dict(base, optimize=opt), rec.get("irtype_detail" + tag, "?"), "generated as well-typed; front end accepted")
        obs = rec["obs"].get("impl" + tag, [])
        for j, o in enumerate(obs):
            run.case((src, opt, j), nontrivial=True); run.count("outcome:" + o[0])
            if o[0] == "internal":
                if typed and str(o[1]) != "OverflowError@CAST":      # see ASSUMPTIONS: int -> float of |i| >= 2^1024
                    run.mismatch("theorem-instance:C05_typed_ir", dict(base, optimize=opt, input_index=j), "irTypeCheck accepts the IR", "the real VM fails internally: %s" % (o[1],))
                run.fail("run-time", dict(base, optimize=opt, input_index=j, site=o[1]), "optimize=%s input %d fails with %s\n%s" % (opt, j, o[1], src[:800]), key="internal:run:" + str(o[1]))
                break


def explore(run, scale=1):
    global _drv
    implrun.load()
    _drv = None
    ps = probes()
    if run.tier != "thorough":
        ps = [p for i, p in enumerate(ps) if i % 3 == (run.seed % 3)] + ps[-5:]
    for src, ptys in ps:
        run_probe(run, src, ptys, "probe")
    for src, ptys in conv_probes():
        run_probe(run, src, ptys, "conv")
    for src, ptys in SHAPE_MISMATCH:
        run_probe(run, src, ptys, "shape-mismatch")
    for src, ptys in MISSING_RETURN:
        run_probe(run, src, ptys, "missing-return")
    inf, nan = float("inf"), float("nan")
    for src, ptys in NONFINITE_CAST:
        vals = [inf, -inf, nan, 1e308]
        ins = [{n: (v if t == "float" else [v, 1.0, 2.0] if t == "float3" else [1, 2, 3, 4]) for n, t in ptys.items()} for v in vals]
        run_probe(run, src, ptys, "nonfinite-cast", inputs=ins)
    for src, ptys in affix_probes():
        run_probe(run, src, ptys, "affix")
    sw = swizzle_probes()
    if run.tier != "thorough":
        sw = run.rng.sample(sw, 700 * scale)
    for src, ptys in sw:
        run_probe(run, src, ptys, "swizzle")
    for e in wholelang.ENTRIES + wholelang.MAYBE_ENTRIES:
        # executed on the arguments of the entry when it needs no globals (the host would have to set them first)
        runnable = e["fn"] == "f" and not e["globals"]
        run_probe(run, e["src"], {} if runnable else None, "corpus", inputs=e["args"] if runnable else None)
    for src in ILL_TYPED:
        fe = frontend(src)
        run.case((src, "ill"), nontrivial=False); run.count("ill-typed:" + fe)
        if fe == "accept":
            c = implrun.compile_src(src)
            if c[0] != "ok":
                run.fail("after-front-end", dict(source=src, optimize=False, site=list(c[1])), "an ill-typed program passes the front end and fails later in %s: %s" % (c[1][1], src),
                         key="internal:lowering:%s@%s" % (c[1][0], c[1][1]))
    n = N[run.tier] * scale
    spec = [(n * 3 // 10, None, None), (n * 2 // 10, None, "calls"), (n * 4 // 10, None, "vec"), (n * 1 // 10, dict(max_depth=4), None)]
    for rec in progfam.evaluate(run, "C05", spec, want=("opt", "irtype")):
        judge_generated(run, rec)


def search(run):
    explore(run, scale=4 if run.tier == "quick" else 1)


def matches(entry, failure):
    return failure["key"].startswith(entry.get("matcher", "\0"))


def replay(obj):
    implrun.load()
    x = obj["input"]
    src = x["source"]
    if frontend(src) != "accept": return True, "the front end rejects this program now"
    c = implrun.compile_src(src, optimize=x.get("optimize", False))
    if c[0] != "ok": return False, "compilation fails after the front end accepted: %s" % (c[1:3],)
    if "args" in x:
        vm = implrun.new_vm(implrun.link([c[1].IRModule]))
        r = implrun.invoke(vm, "f", copy.deepcopy(x["args"]), limit=3)
        return r[0] != "internal", "f(%s) -> %s" % (x["args"], r[:2])
    return True, "compiles"
