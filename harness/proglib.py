"""Evaluation of one generated program on: the real nsl (both optimisation settings), the Lean model
(lowering + VM, reference semantics, model VM on the implementation's IR, verified WF checker) and the
harness's reference interpreter; plus canonicalisation of IR."""
import os, sys, copy, json, random, traceback
import implrun, refsem, lang, gen
from lang import parse_sexp, canon, to_sexp, from_sexp
import common

sys.setrecursionlimit(20000)
FUEL = 200000

# ------------------------------------------------------------------ canonical IR

def canon_ir(prog_sexp_text):
    """Rename value references in definition order and labels in order of appearance; drop labels
    no branch names; returns {funcname: [instr tuples]}"""
    x = parse_sexp(prog_sexp_text)
    out = {}
    for f in x[2][1:]:
        name, code = f[1], f[4][1:]
        used = set()
        for ins in code:
            if ins[0] == 'br': used.add(ins[1])
            elif ins[0] == 'brc': used.add(ins[2]); used.add(ins[3])
        refs, labels = {}, {}
        def R(o):
            if isinstance(o, list) and o and o[0] == 'r':
                return ['r', refs.get(o[1], 'undef' + o[1])]
            return o
        res = []
        DEF = {'load', 'newvar', 'bin', 'cast', 'call', 'loadarr', 'loadmem', 'vecget', 'vecset', 'matget', 'matset', 'shuffle', 'construct'}
        for ins in code:
            if ins[0] == 'label':
                if ins[1] in used: labels.setdefault(ins[1], 'L%d' % len(labels))
        for ins in code:
            op = ins[0]
            if op == 'label':
                if ins[1] in used: res.append(('label', labels[ins[1]]))
                continue
            if op == 'br': res.append(('br', labels.get(ins[1], 'undef'))); continue
            if op == 'brc': res.append(('brc', json.dumps(R(ins[1])), labels.get(ins[2], 'undef'), labels.get(ins[3], 'undef'))); continue
            new = [op]
            rest = ins[1:]
            if op in DEF:
                d = rest[0]; rest = rest[1:]
                new.append(None)
            for a in rest: new.append(json.dumps(R(a)))
            if op in DEF:
                refs[d] = 'v%d' % len(refs)
                new[1] = refs[d]
            res.append(tuple(new))
        out[name] = res
    return out


def ir_diff(a, b):
    """first difference between two canonical IR dicts, or None"""
    if set(a) != set(b): return "function sets differ: %s vs %s" % (sorted(a), sorted(b))
    for n in a:
        la, lb = a[n], b[n]
        for i, (x, y) in enumerate(zip(la, lb)):
            if x != y: return "%s[%d]: impl %s | model %s" % (n, i, x, y)
        if len(la) != len(lb): return "%s: length %d vs %d" % (n, len(la), len(lb))
    return None

# ------------------------------------------------------------------ one case

_driver = None

def driver():
    global _driver
    if _driver is None:
        _driver = common.Driver()
    return _driver


def model_result(ans, ret_ty, module):
    """driver answer -> canonical observation (status, value, globals)"""
    x = parse_sexp(ans) if ans.startswith("(") else ['err', 'driver', ans]
    if x[0] == 'ok':
        v = from_sexp(x[1])
        g = {e[0]: from_sexp(e[1]) for e in x[2][1:]}
        args = [from_sexp(e) for e in x[3][1:]]
        return ('ok', v, g, args)
    return (x[1], " ".join(x[2:]) if len(x) > 2 else "", None, None)


def observe(status, value, globals_, ret_ty, module, args=None, params=None):
    """canonical observation by declared types"""
    if status != 'ok': return (status,)
    g = tuple((n, canon(globals_.get(n), t)) for n, t in module.globals)
    a = None
    if args is not None and params is not None:
        a = tuple(canon(v, t) for v, (_, t) in zip(args, params) if isinstance(t, (lang.Arr, lang.Struct)))
    return ('ok', canon(value, ret_ty), g, a)


HOST_VEC_CHANGED = []


def run_impl(ir_module, module, fname, inputs):
    """run the real VM on each input: list of (status, detail/value, globals-after, args-after)"""
    f = module.find(fname)
    out = []
    try:
        program = implrun.link([ir_module])
    except BaseException as e:
        return [('internal', 'link:' + type(e).__name__, None, None)] * len(inputs)
    for args, gl in inputs:
        vm = implrun.new_vm(program)
        gl2 = copy.deepcopy(gl)
        for n, v in gl2.items(): vm.SetGlobal(n, v)
        args2 = copy.deepcopy(args)
        kw = {n: v for (n, t), v in zip(f.params, args2)}
        r = implrun.invoke(vm, fname, kw, limit=3)
        # by-value promise at the host boundary: vector/matrix argument objects are never modified
        for (n, t), before, after in zip(f.params, args, args2):
            if isinstance(t, (lang.Vec, lang.Mat)) and before != after:
                HOST_VEC_CHANGED.append((fname, n, before, after))
        if r[0] == 'ok':
            ga = {n: vm.GetGlobal(n) for n, _ in module.globals}
            out.append(('ok', r[1], ga, args2))
        else:
            out.append((r[0], r[1], None, None))
    return out


def opt_struct(m0, m1):
    """Lean model of the optimiser applied to the implementation's unoptimised IR vs the implementation's optimised IR
    (canonical forms), and the side conditions of the soundness theorem on this instance."""
    d = driver()
    out = {}
    try:
        p0 = implrun.program_sexp(m0.Functions, m0.Globals)
        p1 = implrun.program_sexp(m1.Functions, m1.Globals)
    except BaseException as e:
        return {"opt_diff": "dump failed: %s" % type(e).__name__}
    if d.ask("irprog " + p0) != "ok":
        return {"opt_diff": "driver cannot parse the unoptimised IR"}
    out["fwdok"] = d.ask("fwdok")
    try:
        out["opt_diff"] = ir_diff(canon_ir(p1), canon_ir(d.ask("opt")))
    except Exception as e:
        out["opt_diff"] = "canonicalisation failed: %r" % (e,)
    return out


def eval_program(module, fname, inputs, want=("ref", "model", "irrun", "wf", "opt", "struct")):
    """Everything the checks need to know about one program. Returns a dict (JSON-able)."""
    f = module.find(fname)
    src = module.src()
    rec = {"src": src, "fn": fname, "inputs": [[to_sexp_list(a), {k: to_sexp(v) for k, v in g.items()}] for a, g in inputs]}
    # --- implementation
    c0 = implrun.compile_src(src, optimize=False)
    rec["accept0"] = c0[0] == 'ok'
    if c0[0] != 'ok': rec["reject0"] = [list(c0[1]), c0[2]]
    c1 = None
    if "opt" in want:
        c1 = implrun.compile_src(src, optimize=True)
        rec["accept1"] = c1[0] == 'ok'
        if c1[0] != 'ok': rec["reject1"] = [list(c1[1]), c1[2]]
    obs = {}
    if c0[0] == 'ok':
        r0 = run_impl(c0[1].IRModule, module, fname, inputs)
        obs["impl0"] = [observe(s, v, g, f.ret, module, a, f.params) if s == 'ok' else (s, v) for s, v, g, a in r0]
    if c1 is not None and c1[0] == 'ok':
        r1 = run_impl(c1[1].IRModule, module, fname, inputs)
        obs["impl1"] = [observe(s, v, g, f.ret, module, a, f.params) if s == 'ok' else (s, v) for s, v, g, a in r1]
    # --- reference interpreter
    if "ref" in want:
        refs = []
        for args, gl in inputs:
            a2, g2 = copy.deepcopy(args), copy.deepcopy(gl)
            try:
                v = refsem.Ref(module).invoke(fname, a2, g2)
                refs.append(observe('ok', v, g2, f.ret, module, a2, f.params))
            except refsem.OutOfDomain as e:
                refs.append(('ood', str(e)))
            except RecursionError:
                refs.append(('ood', 'python recursion'))
        obs["ref"] = refs
    # --- model
    d = driver()
    if "model" in want:
        ans = d.ask("mod " + module.core())
        if ans != "ok":
            rec["model_error"] = "driver rejected module: " + ans
        else:
            mo, mr = [], []
            for args, gl in inputs:
                line = "(args%s) (globals%s)" % ("".join(" " + to_sexp(a) for a in args), "".join(" (%s %s)" % (n, to_sexp(v)) for n, v in gl.items()))
                s, v, g, a = model_result(d.ask("run %d %s %s" % (FUEL, f.irname() if not f.exported else fname, line)), f.ret, module)
                mo.append(observe(s, v, g, f.ret, module, a, f.params) if s == 'ok' else (s, v))
                s, v, g, a = model_result(d.ask("ref %d %s %s" % (FUEL, fname, line)), f.ret, module)
                mr.append(observe(s, v, g, f.ret, module, a, f.params) if s == 'ok' else (s, v))
            obs["model_vm"] = mo
            obs["model_ref"] = mr
            rec["domain"] = d.ask("domain")          # which theorem domains (ScalarCore / StorageCore / NoShadow) the module lies in
            if "struct" in want and c0[0] == 'ok':
                try:
                    mi = canon_ir(d.ask("lower"))
                    ii = canon_ir(implrun.program_sexp(c0[1].IRModule.Functions, c0[1].IRModule.Globals))
                    rec["ir_diff"] = ir_diff(ii, mi)
                except Exception as e:
                    rec["ir_diff"] = "canonicalisation failed: %r" % (e,)
    if "optstruct" in want and c0[0] == 'ok' and c1 is not None and c1[0] == 'ok':
        rec.update(opt_struct(c0[1].IRModule, c1[1].IRModule))
    for tag, c in (("0", c0), ("1", c1)):
        if c is None or c[0] != 'ok': continue
        if "irrun" in want or "wf" in want or "irtype" in want:
            try:
                ps = implrun.program_sexp(c[1].IRModule.Functions, c[1].IRModule.Globals)
            except BaseException as e:
                rec["dump_error" + tag] = "%s: %s" % (type(e).__name__, e)
                continue
            ans = d.ask("irprog " + ps)
            if ans != "ok":
                rec["dump_error" + tag] = "driver cannot parse IR dump"
                continue
            if "irtype" in want:
                rec["irtype" + tag] = d.ask("irtylayers")
                if "full=yes" not in rec["irtype" + tag]: rec["irtype_detail" + tag] = d.ask("irtycheck")[:300]
            if "wf" in want:
                rec["wf" + tag] = d.ask("wf")
                rec["wfchecks" + tag] = d.ask("wfchecks")
            if "irrun" in want:
                mo = []
                for args, gl in inputs:
                    line = "(args%s) (globals%s)" % ("".join(" " + to_sexp(a) for a in args), "".join(" (%s %s)" % (n, to_sexp(v)) for n, v in gl.items()))
                    s, v, g, a = model_result(d.ask("irrun %d %s %s" % (FUEL, fname, line)), f.ret, module)
                    mo.append(observe(s, v, g, f.ret, module, a, f.params) if s == 'ok' else (s, v))
                obs["model_on_impl_ir" + tag] = mo
    rec["obs"] = obs
    if HOST_VEC_CHANGED:
        rec["host_vec_changed"] = [list(map(repr, x)) for x in HOST_VEC_CHANGED]
        del HOST_VEC_CHANGED[:]
    return rec


def to_sexp_list(args):
    return [to_sexp(a) for a in args]


# ------------------------------------------------------------------ host histories (C15)

def eval_history(module, nvms, ops, want=("ref", "model", "opt")):
    """ops: list of ('set', vm, name, value) | ('get', vm, name) | ('invoke', vm, fname, args).
    Every observation is canonicalised by the declared type.  Returns per-engine lists of observations."""
    src = module.src()
    gty = dict(module.globals)
    rec = {"src": src, "nvms": nvms, "ops": [[o[0], o[1], o[2]] + [to_sexp(o[3]) if o[0] == 'set' else [to_sexp(a) for a in o[3]]] if len(o) > 3 else list(o) for o in ops]}
    obs = {}

    def canon_ret(fname, v):
        return canon(v, module.find(fname).ret)

    # --- implementation: all VMs are created from ONE Program object
    for tag, opt in (("impl0", False), ("impl1", True)):
        if tag == "impl1" and "opt" not in want: continue
        c = implrun.compile_src(src, optimize=opt)
        rec["accept" + tag[-1]] = c[0] == 'ok'
        if c[0] != 'ok':
            rec["reject" + tag[-1]] = [list(c[1]), c[2]]; continue
        try:
            program = implrun.link([c[1].IRModule])
        except BaseException as e:
            obs[tag] = [('internal', 'link:' + type(e).__name__)] * len(ops); continue
        vms = [implrun.new_vm(program) for _ in range(nvms)]
        out = []
        for o in ops:
            if o[0] == 'set':
                try:
                    vms[o[1]].SetGlobal(o[2], copy.deepcopy(o[3])); out.append(('ok', '(unit)'))
                except BaseException as e:
                    out.append(('internal', type(e).__name__))
            elif o[0] == 'get':
                try:
                    out.append(('ok', canon(vms[o[1]].GetGlobal(o[2]), gty[o[2]])))
                except BaseException as e:
                    out.append(('internal', type(e).__name__))
            else:
                f = module.find(o[2])
                kw = {n: copy.deepcopy(v) for (n, t), v in zip(f.params, o[3])}
                r = implrun.invoke(vms[o[1]], o[2], kw, limit=3)
                out.append(('ok', canon_ret(o[2], r[1])) if r[0] == 'ok' else (r[0], r[1]))
        obs[tag] = out
    # --- reference state machine (Python reading of the source semantics), one store per VM
    if "ref" in want:
        st = [dict() for _ in range(nvms)]
        out = []
        dead = [False] * nvms
        for o in ops:
            i = o[1]
            if dead[i]: out.append(('ood', 'after an out-of-domain invocation')); continue
            if o[0] == 'set': st[i][o[2]] = copy.deepcopy(o[3]); out.append(('ok', '(unit)'))
            elif o[0] == 'get': out.append(('ok', canon(st[i].get(o[2]), gty[o[2]])))
            else:
                try:
                    v = refsem.Ref(module).invoke(o[2], copy.deepcopy(o[3]), st[i])
                    out.append(('ok', canon_ret(o[2], v)))
                except refsem.OutOfDomain as e:
                    out.append(('ood', str(e))); dead[i] = True      # the store may be half-updated: stop judging this VM
                except RecursionError:
                    out.append(('ood', 'python recursion')); dead[i] = True
        obs["ref"] = out
    # --- Lean model: the host loop threads the globals returned by each invocation (HostStep of Props/C15.lean)
    if "model" in want:
        d = driver()
        ans = d.ask("mod " + module.core())
        if ans != "ok":
            rec["model_error"] = "driver rejected module: " + ans
        else:
            for tag, cmd in (("model_vm", "run"), ("model_ref", "ref")):
                st = [dict() for _ in range(nvms)]
                out = []
                dead = [False] * nvms
                for o in ops:
                    i = o[1]
                    if dead[i]: out.append(('dead',)); continue
                    if o[0] == 'set': st[i][o[2]] = copy.deepcopy(o[3]); out.append(('ok', '(unit)'))
                    elif o[0] == 'get': out.append(('ok', canon(st[i].get(o[2]), gty[o[2]])))
                    else:
                        f = module.find(o[2])
                        line = "(args%s) (globals%s)" % ("".join(" " + to_sexp(a) for a in o[3]), "".join(" (%s %s)" % (n, to_sexp(v)) for n, v in st[i].items()))
                        s_, v, g, a = model_result(d.ask("%s %d %s %s" % (cmd, FUEL, o[2], line)), f.ret, module)
                        if s_ == 'ok':
                            st[i] = g; out.append(('ok', canon_ret(o[2], v)))
                        else:
                            out.append((s_, v)); dead[i] = True
                obs[tag] = out
    rec["obs"] = obs
    return rec
