"""C12 — no two visible variables share a name; references bind lexically.

Correspondence: the real ValidateVariableNames pass (run on the tree the real parser produces) against the Lean model
`Names.checkMod` (driver `names`).
Oracle: (a) the names pass accepts iff no declaration's name is lexically visible at its position (visibility
computed in Python from the skeleton: globals, parameters, enclosing blocks / loop headers / ifs, earlier
declarations of the same scope); (b) the whole AST pipeline of the compiler accepts iff, in addition, every use
names a lexically visible variable - so a variable of a block or loop header is not visible after it."""
import itertools
import common, implrun

RULE = ("seeded random block structures (depth <=4, <=7 statements per block) over declarations, uses, blocks, if/else (braced and un-braced "
        "branches), for (with header declaration), while, do; names drawn from the visible, the out-of-scope and fresh names at every position; "
        "1-2 functions per module, 0-2 globals; binding leg: re-use vs alpha-renamed programs; member leg: a global / parameter / local / "
        "loop variable named like a struct member, two structs sharing a member name (accepted, binds to the variable), a bare use of a "
        "member's name (rejected). Non-trivial: at least two declarations and one nested scope; distinct = distinct skeleton")
EXHAUSTIVE = {"quick": False, "thorough": False}
ASSUMPTIONS = ["the two un-braced branches of one `if` belong to the scope of that `if` (DESIGN.md §7); un-braced declarations are generated as if/for/while bodies",
               "run-time binding (which storage a use reads) is covered by the theorems about the model (flat_refines_lexical, uses_resolve); "
               "this check ties the model to the code on acceptance and on visibility only"]
TRUSTED = ["Nsl/Model/Names.lean mirrors ValidateVariableNamesVisitor (context chain, which nodes open a context)"]
POOL = ["a", "b", "c", "d", "g0", "g1", "p0", "p1", "i", "j"]


def gen_stmt(rng, depth, visible, dead):
    """returns skeleton node; visible: set of names visible here (mutated by decls of this scope handled by caller)"""
    r = rng.random()
    if r < 0.30:
        # choose a name: visible (-> redeclaration), out-of-scope, or fresh
        k = rng.random()
        cand = sorted(visible) if k < 0.05 and visible else sorted(dead) if k < 0.4 and dead else [n for n in POOL if n not in visible] or POOL
        return ("D", rng.choice(cand))
    if r < 0.55:
        k = rng.random()
        cand = sorted(visible) if k < 0.97 and visible else sorted(dead) if dead else POOL
        return ("U", rng.choice(cand))
    if depth <= 0:
        return ("U", "p0")
    if r < 0.67: return ("B", gen_block(rng, depth - 1, set(visible), dead))
    if r < 0.80:
        def branch():
            k = rng.random()
            if k < 0.6: return ("B", gen_block(rng, depth - 1, set(visible), dead))
            if k < 0.75:      # an un-braced declaration as a branch: visible only inside the `if`
                n = rng.choice([x for x in POOL if x not in visible] or POOL); dead.add(n)
                return ("D", n)
            return ("U", rng.choice(sorted(visible) or ["p0"]))
        return ("I", branch(), branch())
    if r < 0.90:
        h = rng.choice([n for n in ("i", "j", "c", "d") if n not in visible] * 6 + sorted(visible)[:1] or ["i"])
        k = rng.random()
        if k < 0.7: body = ("B", gen_block(rng, depth - 1, set(visible) | {h}, dead))
        elif k < 0.8:
            n = rng.choice([x for x in POOL if x not in visible and x != h] or POOL); dead.add(n)
            body = ("D", n)
        else: body = ("U", rng.choice(sorted(visible | {h})))
        return ("F", h, body)
    if r < 0.95:
        k = rng.random()
        if k < 0.7: body = ("B", gen_block(rng, depth - 1, set(visible), dead))
        elif k < 0.8:
            n = rng.choice([x for x in POOL if x not in visible] or POOL); dead.add(n)
            body = ("D", n)
        else: body = ("U", rng.choice(sorted(visible) or ["p0"]))
        return ("W", body)
    return ("O", ("B", gen_block(rng, depth - 1, set(visible), dead)))


def gen_block(rng, depth, visible, dead):
    """a list of statements forming one scope; names declared inside die at its end (added to `dead`)"""
    out, mine = [], set()
    for _ in range(rng.choice([1, 2, 3, 4, 5, 7])):
        s = gen_stmt(rng, depth, visible, dead)
        out.append(s)
        if s[0] == "D":
            visible.add(s[1]); mine.add(s[1])
    dead |= mine
    return out


def seq_tokens(stmts):
    if len(stmts) == 1: return tokens(stmts[0])
    return ["S"] + tokens(stmts[0]) + seq_tokens(stmts[1:])


def tokens(s):
    k = s[0]
    if k in "DU": return [k, s[1]]
    if k == "B": return ["B"] + seq_tokens(s[1])
    if k == "I": return ["I"] + tokens(s[1]) + tokens(s[2])
    if k == "F": return ["F", s[1]] + tokens(s[2])
    return [k] + tokens(s[1])


def render(s):
    k = s[0]
    if k == "D": return "int %s = 1;" % s[1]
    if k == "U": return "%s = %s + 1;" % (s[1], s[1])
    if k == "B": return "{ " + " ".join(render(x) for x in s[1]) + " }"
    if k == "I": return "if (p0 < 5) %s else %s" % (render(s[1]), render(s[2]))
    if k == "F": return "for (int %s = 0; %s < 2; ++%s) %s" % (s[1], s[1], s[1], render(s[2]))
    if k == "W": return "while (p0 < 0) %s" % render(s[1])
    return "do %s while (p0 < 0)" % render(s[1])


def spec(stmts, visible):
    """(no redeclaration, all uses visible) for a scope's statement list; `visible` = names visible on entry (copied)"""
    vis = set(visible)
    redecl_ok, uses_ok = True, True
    def one(s, vis):
        nonlocal redecl_ok, uses_ok
        k = s[0]
        if k == "D":
            if s[1] in vis: redecl_ok = False
            vis.add(s[1])
        elif k == "U":
            if s[1] not in vis: uses_ok = False
        elif k == "B":
            inner = set(vis)
            for x in s[1]: one(x, inner)
        elif k == "I":
            inner = set(vis)            # the if opens one scope for both branches
            one(s[1], inner); one(s[2], inner)
        elif k == "F":
            inner = set(vis)
            if s[1] in inner: redecl_ok = False
            inner.add(s[1])
            one(s[2], inner)
        else:
            inner = set(vis)
            one(s[1], inner)
    for s in stmts: one(s, vis)
    return redecl_ok, uses_ok


def make_module(rng):
    globals_ = rng.choice([[], ["g0"], ["g0", "g1"]])
    fns = []
    for _ in range(rng.choice([1, 1, 2])):
        params = rng.choice([["p0"], ["p0", "p1"], ["p0", "a"]])
        body = gen_block(rng, rng.choice([1, 2, 3, 4]), set(globals_) | set(params), set())
        fns.append((params, body))
    return globals_, fns


def module_src(globals_, fns):
    out = ["int %s = 0;" % g for g in globals_]
    for n, (params, body) in enumerate(fns):
        out.append("function f%d(%s) -> int { %s return p0; }" % (n, ", ".join("int " + p for p in params), " ".join(render(s) for s in body)))
    return "\n".join(out) + "\n"


def module_line(globals_, fns):
    return "names globals %s ; %s" % (",".join(globals_), " ; ".join("fn %s : %s" % (",".join(ps), " ".join(seq_tokens(b))) for ps, b in fns))


def run_impl(src):
    """(names pass verdict, whole AST pipeline verdict)"""
    from nsl import Compiler
    from nsl.parser import NslParser
    from nsl.passes import ValidateVariableNames
    try:
        with implrun.quiet():
            tree = NslParser().Parse(src)
    except SystemExit:
        return "syntax-error", "syntax-error"
    if tree is None: return "syntax-error", "syntax-error"
    try:
        with implrun.quiet():
            names = "accept" if ValidateVariableNames.GetPass().Process(tree) else "reject"
    except Exception:
        names = "reject"
    try:
        with implrun.quiet():
            c = Compiler.Compiler()
            tree = c.parser.Parse(src)
            full = "accept"
            for p in c.astPasses:
                if not p.Process(tree): full = "reject"; break
    except Exception:
        full = "reject"
    return names, full


def explore(run, widen=1):
    implrun.load()
    rng = run.rng
    d = common.Driver()
    mods = [make_module(rng) for _ in range((12000 if run.tier == "thorough" else 2000) * widen)]
    ans = d.ask_many([module_line(g, f) for g, f in mods])
    d.close()
    for (g, fns), model in zip(mods, ans):
        src = module_src(g, fns)
        names, full = run_impl(src)
        if names == "syntax-error":
            raise common.Infra("does not parse: " + src)
        oks = [spec(body, set(g) | set(ps)) for ps, body in fns]
        dup_params = any(len(set(ps)) != len(ps) or (set(ps) & set(g)) for ps, _ in fns)
        want_names = "accept" if all(o[0] for o in oks) and not dup_params else "reject"
        want_full = "accept" if want_names == "accept" and all(o[1] for o in oks) else "reject"
        toks = [t for _, b in fns for t in seq_tokens(b)]
        ndecl = sum(1 for t in toks if t in ("D", "F"))
        run.case(module_line(g, fns), nontrivial=ndecl >= 2 and any(t in "BIFWO" for t in toks),
                 sample=dict(source=src, names_pass=names, compiler_front_end=full) if (want_names != want_full and len(run.samples) < 2) or (want_names == "reject" and 2 <= len(run.samples) < 4) else None)
        run.count("names:" + names); run.count("frontend:" + full); run.count("decls:%d" % min(ndecl, 6))
        inp = dict(source=src, skeleton=module_line(g, fns), expected_names=want_names, expected_frontend=want_full)
        if model == "error": raise common.Infra("model cannot parse: " + module_line(g, fns))
        if model != names: run.mismatch("names", inp, model, names)
        if names != want_names:
            run.fail("names", inp, "the names pass %ss\n%s but %s" % (names, src, "no declaration re-uses a visible name" if want_names == "accept" else "a declaration re-uses a visible name"),
                     key="names:" + names)
        if full != want_full:
            run.fail("frontend", inp, "the front end %ss\n%s; lexical rule: %s" % (full, src, want_full), key="frontend:" + full)


    binding_leg(run)
    member_leg(run)


def binding_leg(run):
    """Run-time consequence of the statement: a use reads and writes the ONE declaration lexically visible there.  Programs whose
    sibling scopes re-use a name (allowed) must behave exactly like their alpha-renamed versions (every declaration its own name)."""
    decls = {"int": ("int %s;", "%s = a;", "%s"), "float": ("float %s;", "%s = 2.5;", "%s"),
             "int[3]": ("int[3] %s;", "%s[2] = a;", "%s[2]"), "int[2][2]": ("int[2][2] %s;", "%s[1][0] = a;", "%s[1][0]"),
             "float[2]": ("float[2] %s;", "%s[1] = 1.5;", "%s[1]")}
    wraps = [("{ %s }", "{ %s }"), ("if (a > 0) { %s }", "if (a > 0) { %s }"), ("if (a > 0) { %s } else { }", "if (a < 0) { } else { %s }"),
             ("for (int k = 0; k < 2; ++k) { %s }", "{ %s }"), ("{ %s }", "for (int k = 0; k < 2; ++k) { %s }"),
             ("{ { %s } }", "{ %s }"), ("int q = 0; while (q < 1) { q = q + 1; %s }", "{ %s }"), ("do { %s } while (0 > 1)", "{ %s }")]
    progs = []
    for t1, t2 in itertools.product(decls, repeat=2):
        d1, w1, r1 = decls[t1]; d2, w2, r2 = decls[t2]
        for wa, wb in wraps:
            def body(n1, n2):
                first = wa % (d1 % n1 + " " + w1 % n1 + " r = r + " + r1 % n1 + ";")
                second = wb % (d2 % n2 + " r = r + " + r2 % n2 + " * 1000; " + w2 % n2)
                return "export function f(int a) -> float { float r = 0.0; %s %s return r; }" % (first, second)
            progs.append((body("t", "t"), body("t1", "t2")))
    # a for-header variable, then the same name declared after the loop; a name of an enclosing block's sibling
    progs.append(("export function f(int a) -> float { float r = 0.0; for (int t = 0; t < 2; ++t) { r = r + t; } int t; r = r + t * 1000; t = a; return r; }",
                  "export function f(int a) -> float { float r = 0.0; for (int t1 = 0; t1 < 2; ++t1) { r = r + t1; } int t2; r = r + t2 * 1000; t2 = a; return r; }"))
    if run.tier != "thorough": progs = run.rng.sample(progs[:-1], 70) + progs[-1:]
    for reuse, renamed in progs:
        outs = []
        for src in (reuse, renamed):
            c = implrun.compile_src(src)
            if c[0] != "ok": outs.append(("reject", str(c[1][:2]))); continue
            res = []
            for a in (41, 0, -3):
                vm = implrun.new_vm(implrun.link([c[1].IRModule]))
                res.append(implrun.invoke(vm, "f", dict(a=a), limit=3))
            outs.append(("ok", res))
        run.case(("binding", reuse), nontrivial=True); run.count("binding:" + outs[0][0])
        if outs[0] != outs[1]:
            run.fail("binding", dict(source=reuse, renamed=renamed, got=str(outs[0])[:200], expected=str(outs[1])[:200]),
                     "sibling scopes re-use a name:\n%s\nbehaves like %s, its alpha-renamed version\n%s\nlike %s" % (reuse, str(outs[0])[:120], renamed, str(outs[1])[:120]),
                     key="binding:" + outs[0][0])


def member_cases(rng, n):
    """Members of a struct are names of the struct, not variables of the module: a variable (global, parameter, local, loop
    header) may carry the name of a member, two structs may have members of the same name, and a bare use of a member's name
    where no variable of that name is visible is a use of an undeclared name.
    -> (source, alpha-renamed source or None, expected 'accept'/'reject', tag)"""
    out = []
    for _ in range(n):
        m = rng.choice(["m0", "x", "val"])
        other = rng.choice(["m1", "y"])
        two = rng.random() < .5
        structs = "struct S0 { int %s; float %s; }\n" % (m, other) + ("struct S1 { float %s; int k; }\n" % m if two else "")
        pos = rng.choice(["global", "param", "local", "for", "none", "none-nested", "shared-only"])
        def prog(v):
            g = "int %s = 7;\n" % v if pos == "global" else ""
            ps = "int a, int %s" % v if pos == "param" else "int a"
            pre = {"local": "int %s = a * 2;" % v, "for": "for (int %s = 0; %s < 3; ++%s) { r = r + %s; }" % (v, v, v, v)}.get(pos, "")
            use = {"global": "r = r + %s; %s = %s + 1;" % (v, v, v), "param": "r = r + %s;" % v, "local": "r = r + %s; %s = 1;" % (v, v), "for": "",
                   "none": "r = r + %s;" % v, "none-nested": "if (a > 0) { r = r + %s; }" % v, "shared-only": ""}[pos]
            body = "S0 s; s.%s = a + 1; int r = 0; %s %s r = r + s.%s * 100;" % (m, pre, use, m)
            if two: body += " S1 t; t.%s = 0.5; r = r + t.k;" % m
            return structs + g + "export function f(%s) -> int { %s return r; }\n" % (ps, body)
        if pos in ("none", "none-nested"):
            out.append((prog(m), None, "reject", "bare-use-of-a-member-name"))
        else:
            out.append((prog(m), prog("w9"), "accept", "variable-named-like-a-member:" + pos + (":two-structs" if two else "")))
    return out


def member_leg(run):
    seen = set()
    for src, renamed, want, tag in member_cases(run.rng, 400 if run.tier == "thorough" else 120):
        if src in seen: continue
        seen.add(src)
        outs = []
        for text in (src, renamed):
            if text is None: outs.append(None); continue
            c = implrun.compile_src(text)
            if c[0] != "ok": outs.append(("reject", str(c[1][:2]))); continue
            res = []
            for a in (5, -2):
                vm = implrun.new_vm(implrun.link([c[1].IRModule]))
                kw = dict(a=a); 
                if "int a, int" in text: kw[text.split("int a, int ")[1].split(")")[0]] = 11
                res.append(implrun.invoke(vm, "f", kw, limit=3))
            outs.append(("ok", res))
        run.case(("members", src), nontrivial=True); run.count("members:" + tag.split(":")[0]); run.count("members:" + outs[0][0])
        inp = dict(source=src, renamed=renamed, expected=want)
        if want == "reject":
            if outs[0][0] != "reject":
                run.fail("members", inp, "a member's name is used where no variable of that name is visible, and the program is accepted (%s):\n%s" % (str(outs[0])[:120], src),
                         key="members:accepts-undeclared")
        elif outs[0][0] != "ok":
            run.fail("members", inp, "%s — the program is rejected (%s), no variable of that name is visible at the declaration:\n%s" % (tag, outs[0][1], src), key="members:rejects")
        elif outs[0] != outs[1]:
            run.fail("members", dict(inp, got=str(outs[0])[:200], want=str(outs[1])[:200]), "%s:\n%s\nbehaves like %s, the renamed version like %s" % (tag, src, str(outs[0])[:120], str(outs[1])[:120]),
                     key="members:binding")


def search(run):
    explore(run, widen=3)


def matches(entry, failure):
    return entry.get("matcher") == failure["key"]


def replay(obj):
    implrun.load()
    x = obj["input"]
    if obj.get("kind") == "members":
        c = implrun.compile_src(x["source"])
        got = "accept" if c[0] == "ok" else "reject"
        return got == x["expected"], "front end: %s (rule %s)" % (got, x["expected"])
    names, full = run_impl(x["source"])
    ok = names == x["expected_names"] and full == x["expected_frontend"]
    return ok, "names pass: %s (rule %s); front end: %s (rule %s)" % (names, x["expected_names"], full, x["expected_frontend"])
