#!/bin/bash
for spec in "$@"; do
  id=${spec%%:*}; rest=${spec#*:}; n=${rest%%:*}; checks=$(echo ${rest#*:} | tr ',' ' ')
  /verif/tools/seedtest_isolated.sh $id $n $checks >> /tmp/seedresults2.txt 2>&1
done
echo ALLDONE >> /tmp/seedresults2.txt
