#!/usr/bin/env python3
"""Writes seeded/<id>/meta.json from the table below (results of tools/seedtest.sh runs) and the notes.md of each seed."""
import json, os, re
ROOT = "/verif/seeded"
RAN = ("tools/seedtest.sh <prop> <n> <checks>: git -C /repo apply patch.diff; /venv/bin/python -m pytest (82 passed with the change); "
       "demo.py on the clean tree (exit 0) and on the changed tree (exit 1); ./check <id> quick (VIOLATION expected) with evidence redirected; "
       "git -C /repo checkout -- .")
# id: (caught_by quick, missed_by (claimed property's own check if it misses), note, needs-override)
T = {
 "C01-1": (["C01"], "", None),
 "C01-2": (["C01", "C15"], "caught after the generator got fresh aggregates declared inside loops", None),
 "C02-1": (["C02"], "", None),
 "C02-2": (["C02", "C04"], "first missed by C02 and C14 (no vector programs there); caught after the vec generator stratum was added to C02", None),
 "C03-1": (["C03"], "caught after tree/double recursion was added to the call generator", None),
 "C03-2": (["C03"], "", None),
 "C04-1": (["C04"], "", "a swizzle write with two or more components and a non-ascending mask (v.yx = q, v.zx, wzyx, bgr ...)"),
 "C04-2": (["C04"], "", "float matrix / scalar with a divisor that is not a power of two and a component where 1/s rounding shows (5.0/3.0)"),
 "C05-1": (["C05", "C02"], "first missed by C05 (caught by C02); caught by C05 after probes with float literals in int positions were added", "optimize on; a float literal with integral value converted implicitly to int (call argument, intN constructor) and then used as an index"),
 "C05-2": (["C05", "C13"], "first missed by C05 (caught by C13); caught by C05 after the swizzle-mask probe family (all masks x all types, read and write) was added", "a multi-letter mask such as .xw / .ra on a scalar or a short vector, as read on a scalar or as assignment target"),
 "C06-1": (["C06", "C07"], "first missed by C06 (C07 reported the byte-level correspondence break without a failing input); caught by C06 after side effects on parameters (p++, chained stores) were generated", "a postfix ++/-- on a parameter whose OLD value is used afterwards (return a++; b = a++;)"),
 "C06-2": (["C06", "C07"], "first missed by C06 (C07: correspondence break); caught by C06 after the complete operator x scalar-type grid with 32-bit boundary arguments was added", "one of the newly translated operators <= >= != with uint operands of which exactly one is >= 2^31, or with float operands (invalid module)"),
 "C07-1": (["C07", "C06"], "", "a function whose temporaries alternate type (f32, i32, f32): e.g. return (a < 1.5) + (a < 2.5) with float a"),
 "C07-2": (["C07"], "C06 does not see it (the colliding signatures need two functions; C06 programs have one)", "two functions in one module where (p1..pn, t) -> void and (p1..pn) -> t occur (collision of the signature key)"),
 "C08-1": (["C08"], "", None),
 "C08-2": (["C08", "C01"], "first missed by C08 (only C01 reported the wrong value): the change is in RewriteAssignEqualOperations, after parsing, so the parse tree is unchanged; caught by C08 after the second observable of the statement — the evaluated VALUE of pairs, triples and compound assignments — was added", None),
 "C09-1": (["C09"], "", None), "C09-2": (["C09"], "", None),
 "C10-1": (["C10"], "caught after a stratum with three viable overloads was added", None), "C10-2": (["C10"], "", None),
 "C11-1": (["C11"], "", None), "C11-2": (["C11"], "", None),
 "C12-1": (["C12"], "", None), "C12-2": (["C12"], "caught after unbraced declarations as loop/if bodies were generated", None),
 "C13-1": (["C13"], "", None), "C13-2": (["C13"], "", None),
 "C14-1": (["C14"], "", None), "C14-2": (["C14"], "caught after aggregate arguments of internal calls were added to the corpus", None),
 "C15-1": (["C15"], "", None), "C15-2": (["C15", "C01", "C02"], "caught after store-call-load sequences on globals were generated", None),
 "C16-1": (["C16"], "", "a diamond import DAG: two modules importing the same module are both added before it is dequeued"),
 "C16-2": (["C16"], "", "an overload set split between a module and the module it imports, the call best-matching the imported overload"),
 "C17-1": (["C17"], "", "a function with ++/-- on a float variable that also uses the float constant 1.0, and an input executing the instruction that uses the lost constant"),
 "C17-2": (["C17"], "not masked by the open RecursionError finding: the known-finding matcher names the deep-chain/nested shapes only", "any struct declaration in the stored module (load ends in RecursionError)"),
 "C18-1": (["C18", "C07"], "", "wasm option, two wasm compilations in one process, a signature that occurred in the earlier one"),
 "C18-2": (["C18"], "", "a struct with two or more fields used as a value, compared across processes with different PYTHONHASHSEED"),
 "C19-1": (["C19"], "", None), "C19-2": (["C19"], "", None),
 "C20-1": (["C20"], "caught after odd line separators (CR, CRLF, FF) were added to the texts", None), "C20-2": (["C20"], "caught after interleaved declarations were generated", None),
}

# ---- round 2 (the sub-agents were asked for defects a verification effort is likely to overlook)
T.update({
 "C01-3": (["C01"], "first missed; caught after the generator got float variables that hold Python ints (default-initialised, changed only by ++/--) and their quotient", "a float-typed division whose two run-time operands are int-valued floats (float locals only default-initialised and then ++'d)"),
 "C01-4": (["C01"], "first missed; caught after logical operators with float operands (values strictly between 0 and 1) were generated", "a float-typed expression with a value in (0,1) used directly as an operand of && / ||"),
 "C02-3": (["C02"], "", "a global is stored, a callee that writes the same global is called, the global is loaded afterwards — in one basic block"),
 "C02-4": (["C02"], "first missed; caught after the corpus got whole-struct assignment followed by a member store with a literal right-hand side", "b = a (or b = make(n)) immediately followed by b.kind = 7 — the second variant needs both optimisation passes to interact"),
 "C03-3": (["C03"], "first missed; caught after callees got local nested aggregates (2-D arrays) read before and after the recursive call", "a local multi-dimensional array / struct with array member in a function executed more than once (recursion, second call, loop)"),
 "C03-4": (["C03"], "first missed; caught after overloads that differ in ARITY (and a call that needs an implicit conversion on the extra argument) were generated", "overloads of different arity, the call with the larger arity needing an implicit conversion on the extra argument"),
 "C05-3": (["C05"], "", "a loop with break/continue and another loop lowered afterwards; the break actually taken at run time"),
 "C05-4": (["C05"], "", "a function reached through a CALL that assigns to its own parameter"),
 "C09-3": (["C09"], "first missed; caught after the typing rule and the conversions were checked at EVERY operator node of nested expressions, assignments, initialisers, call arguments", "a binary expression whose operand already has the operator's operand type and itself contains a mixed-type binary expression: (i + x) * y"),
 "C09-4": (["C09"], "first missed; caught after literal operands were added to the front-end leg", "a non-negative integer literal next to a uint operand: u + 1, u - 1"),
 "C10-3": (["C10"], "first missed; caught after the caller was declared at every position among the overloads", "the calling function declared before at least one overload of the callee"),
 "C10-4": (["C10"], "first missed; caught after modules with two calls of one name on different vector types were generated", "a second call to the same name whose arguments have the same Python classes but different vector types (int2 then float2)"),
 "C11-3": (["C11"], "", "two loops lowered in one process, the earlier-closed one containing break/continue"),
 "C11-4": (["C11"], "", "break/continue of the outer loop placed after a nested loop has closed"),
 "C12-3": (["C12"], "", "an unbraced declaration as if/else/while body, followed by a use or redeclaration of the name"),
 "C12-4": (["C12"], "first missed (C12 had no run-time leg); caught after programs whose sibling scopes re-use a name were compared with their alpha-renamed versions on the VM", "two sibling scopes executed in one call that re-use a name, the second declaration without initialiser / an array / of another type"),
 "C13-3": (["C13"], "first missed; caught after the same access chains were placed inside other index expressions, operands, targets, conditions and call arguments", "an out-of-range constant index on an access that sits inside the index expression of another access: a[b[4]]"),
 "C13-4": (["C13"], "ported onto the repaired validator (8761bd5); caught by the placement family (a valid use of the same mask on a wider type first)", "the same mask used validly on a wider type earlier (same function, earlier function) and then on a narrower vector"),
 "C14-3": (["C14"], "", "a loop with break/continue and another loop lowered later in a different function"),
 "C14-4": (["C14"], "first missed; caught after modules with two functions that each contain row-wise matrix operations were generated (vec generator, corpus)", "two functions in one module that each contain a row-wise matrix operation (M+M, M*S, S*M)"),
 "C15-3": (["C15"], "first missed; caught after histories got local structs with array members written in place", "a local struct with an array or struct member, written in place, whose declaration runs again on the same VM"),
 "C15-4": (["C15"], "first missed; caught after histories got a recursive helper that keeps a value across the inner call", "recursion at least two levels deep where the outer activation uses after the call a value it produced before it"),
 "C20-3": (["C20"], "", "a source containing a form feed / lone CR / U+2028 ... and a position reported after it"),
 "C20-4": (["C20"], "", "a hex literal as the last token of an initialiser"),
})


T.update({
 "C04-3": (["C04"], "", "a module with two functions, the second containing a row-wise matrix operation"),
 "C04-4": (["C04"], "first missed; caught after element writes THROUGH a swizzle (v.zw[1] = e) were generated", "an index write whose parent is a swizzle of two or more letters: p.zw[1] = 9"),
 "C06-3": (["C06"], "", "an argument is read, then written, and the earlier value is used afterwards: return a++;"),
 "C06-4": (["C06"], "first missed; caught after non-exported functions of the same signature were placed before and after the exported one", "a function without `export` declared before an exported one"),
 "C07-3": (["C07"], "", "two overloads of a non-exported function, or an exported f plus a non-exported overload of f"),
 "C07-4": (["C07"], "", "a non-void function with two `return e;` statements"),
 "C08-3": (["C08"], "first missed; caught after chains with LITERAL operands (floats with exponents, negative ints) were added to the tree leg", "two equal + or * in a row whose trailing operands are both float literals: x + 1e20 + 1.0"),
 "C08-4": (["C08"], "first missed; caught by the same literal-operand chains (a negative literal is one token)", "a negative integer literal directly before %: a + -7 % 3"),
 "C16-3": (["C16"], "", "an overload set split between a module and the module it imports"),
 "C16-4": (["C16"], "first missed; caught after module names that differ only in a trailing letter of '.nslir' were used (util/utils, n, s, l, i, r)", "two imported modules whose names collapse under rstrip('.nslir'): util and utils"),
 "C17-3": (["C17"], "first missed; caught after programs with uint were stored and reloaded (every corpus entry is now round-tripped)", "the stored program contains a uint type"),
 "C17-4": (["C17"], "first missed; caught after a store / load / store-again / load-again history through one loader object (and through default Linkers for an import) was added", "a module file stored again with another program and loaded again through the same loader object"),
 "C18-3": (["C18"], "", "an earlier compilation in the same process lowered a same-named struct with a different field list"),
 "C18-4": (["C18"], "", "wasm bytes of a function with int and float registers compared across hash seeds"),
 "C19-3": (["C19"], "", "a module with two functions, a body shorter than the longest body before it"),
 "C19-4": (["C19"], "", "a number first written unsigned and later as an i32.const immediate in the same process"),
})

# round 3 (fresh agents, two per property for eight properties)
T.update({
 "C01-5": (["C01"], "", "an == with a float operand whose 0/1 result is an operand of an int division with an inexact quotient that is scaled or stored in a float"),
 "C01-6": (["C01"], "", "a float-typed division both of whose operand VALUES are Python ints at run time (zero-initialised float locals, ++/--, + - * among them) with an inexact quotient"),
 "C02-5": (["C02"], "", "optimize on; an array or struct variable assigned as a whole and read by the very next instruction (b = a; b[0] = 7;)"),
 "C02-6": (["C02"], "", "optimize on; one name declared in two sibling bare blocks of the same basic block, the second without initialiser and read before it is written"),
 "C03-5": (["C03"], "first missed; caught after the call generator made one member of an overload family exported (the exported one is called by its raw name, its sibling by the mangled one)", "an exported function sharing its name with a non-exported overload, and a call for which the non-exported one is the better match"),
 "C03-6": (["C03"], "", "direct recursion as the whole expression of a return, where a later argument reads a parameter that an earlier argument position rebinds"),
 "C04-5": (["C04"], "", "matrix / scalar with a divisor whose reciprocal is inexact, on a component where the double rounding shows"),
 "C04-6": (["C04"], "", "a vector constructor with two or more arguments whose first argument is a vector that is read as a whole afterwards"),
 "C05-5": (["C05"], "", "one name declared in sibling scopes with different run-time shapes, the second declaration without initialiser, executed after the first"),
 "C05-6": (["C05"], "first missed; caught after the corpus got functions with empty bodies ({}), called and exported, and C05 started to EXECUTE the corpus entries", "a function definition whose body has zero statements that is called or invoked"),
 "C14-5": (["C14"], "first missed (on the unchanged compiler every program with __optional dies in the parser, so no generator produced one); caught after a list of programs the compiler MAY reject (wholelang.MAYBE_ENTRIES: __optional with omitted arguments, forward declarations) was added: nothing is demanded of a rejection, everything of an acceptance", "a function with a trailing __optional parameter and a call that omits it"),
 "C14-6": (["C14"], "first missed; caught after the verified checker also ran on every corpus module after a pickle store/load round trip, at both optimisation levels", "optimize on; a module whose optimiser removed a value registered before a basic block, stored and loaded again"),
 "C15-5": (["C15"], "first missed; caught after the history generator got void helpers and exported void setters that end without return, and a stratum of long histories (450-700 operations on one VM)", "more than 400 activations, over the life of one VM, of functions that end without a return"),
 "C15-6": (["C15"], "first missed; caught after the history generator got wrappers that do not write a global themselves but call a helper that does (store; call wrapper; load in one block)", "optimize on; a store to a global, a call and a load of that global in one basic block, the write to the global happening two calls deep"),
 "C16-5": (["C16"], "", "an overload set split between a module and a module it imports, the call best matching the imported overload while the local one is convertible"),
 "C16-6": (["C16"], "first missed; caught after a fifth of the cases named their modules by paths that share the last component (geom/util, color/util, util, a/b/lib, a/lib)", "two distinct imported modules whose names have the same last path component"),
})

# round 4 (after the aggregate / member / stored-module legs were added)
T.update({
 "C10-5": (["C10"], "", "two-parameter overloads each needing exactly one conversion for the call, one of them a float -> int narrowing: f(int,int) / f(float,float) called with (float,int)"),
 "C10-6": (["C10"], "", "the calling function declared before at least one overload of the callee"),
 "C12-5": (["C12"], "", "a nested scope declares x, then the enclosing scope declares x, then a later nested scope declares x again (for (int i..) {} int i; for (int i..) {})"),
 "C12-6": (["C12"], "", "a declaration as an un-braced if / else branch and a later use or redeclaration of that name in the enclosing block"),
 "C13-5": (["C13"], "", "two swizzles with the same mask text in one module, the first on a vector wide enough, a later one on a narrower vector or a scalar"),
 "C13-6": (["C13"], "", "an out-of-range constant index followed, in visit order, by an in-range constant index (a[0][3] on int[2][3]; a bad access then a good one)"),
 "C17-5": (["C17"], "", "optimize on; the optimiser removed a value registered before a basic block that a branch targets; the module stored and loaded"),
 "C17-6": (["C17"], "", "a stored program that uses uint (listing differs; values differ for a negative value cast to uint at run time)"),
})

for sid, (caught, note, needs) in sorted(T.items()):
    d = os.path.join(ROOT, sid)
    notes = open(os.path.join(d, "notes.md")).read()
    if needs is None:
        m = re.search(r"^\s*[-*]?\s*\**(Needed to manifest|Needs to manifest|Needs all of|Needs)\**\s*:?\s*(.*?)(?=\n\s*[-*] |\n\n|\Z)", notes, re.S | re.M | re.I)
        needs = " ".join(m.group(2).split()) if m else notes.splitlines()[0]
    title = notes.strip().splitlines()[0].lstrip("# ").strip()
    meta = dict(id=sid, property=sid.split("-")[0], change=title, needs=needs, what_was_run=RAN,
                confirmed=dict(tests_pass_with_change=True, demo_fails_with_change=True, demo_passes_without=True),
                caught_by=caught, note=note, files=sorted(os.listdir(d)))
    json.dump(meta, open(os.path.join(d, "meta.json"), "w"), indent=1)
print(len(T), "meta files")
