#!/usr/bin/env python3
"""Regenerates the generated tables of DESIGN.md (between <!-- X:BEGIN --> / <!-- X:END --> markers) from
known_findings.json (FIXTABLE) and seeded/*/meta.json (SEEDTABLE)."""
import json, glob, os, re
p = "/verif/DESIGN.md"
s = open(p).read()

def put(tag, body):
    global s
    b, e = "<!-- %s:BEGIN -->" % tag, "<!-- %s:END -->" % tag
    if b not in s: raise SystemExit("marker %s missing" % tag)
    i, j = s.index(b) + len(b), s.index(e)
    s = s[:i] + "\n" + body + "\n" + s[j:]

d = json.load(open("/verif/known_findings.json"))
rows = ["| finding | property | commit | what failed |", "|---|---|---|---|"]
for f in d["findings"]:
    if f["status"] == "fixed":
        rows.append("| %s | %s | `%s` | %s |" % (f["id"], f["property"], f["commit"], f["description"].replace("|", "\\|")))
put("FIXTABLE", "\n".join(rows))

rows = ["| seeded change | breaks | what it needs to manifest | caught by (quick tier) | note |", "|---|---|---|---|---|"]
for m in sorted(glob.glob("/verif/seeded/*/meta.json")):
    x = json.load(open(m))
    rows.append("| %s | %s | %s | %s | %s |" % (os.path.basename(os.path.dirname(m)), x["property"], x["needs"].replace("|", "\\|")[:260],
                                              ", ".join(x["caught_by"]) or "—", x.get("note", "").replace("|", "\\|")))
if "<!-- SEEDTABLE:BEGIN -->" in s: put("SEEDTABLE", "\n".join(rows))
open(p, "w").write(s)
print("ok")
