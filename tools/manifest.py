#!/opt/veriftools/pyvenv/bin/python
"""manifest.py claim <id> <json-file-with level_text/level_note/technique>   |  manifest.py na <id> <reason>  | validate"""
import json, sys
p = "/verif/MANIFEST.json"
m = json.load(open(p))
cmd = sys.argv[1]
if cmd == "claim":
    pid = sys.argv[2]
    spec = json.load(open(sys.argv[3]))
    m["checks"] = [c for c in m["checks"] if c["property_id"] != pid]
    m["checks"].append({
        "property_id": pid, "quick_cmd": "./check %s quick" % pid, "thorough_cmd": "./check %s thorough" % pid,
        "evidence_file": "evidence/%s.json" % pid, "replay_cmd_template": "./check %s --replay {path}" % pid,
        "engine": "lean-nsl",
        "level_claimed": {"category": spec.get("category", "proof"), "text": spec["text"], "design_ref": spec["design_ref"]},
        "level_note": spec["note"], "technique": spec["technique"]})
    m["checks"].sort(key=lambda c: c["property_id"])
    m["not_applicable"] = [n for n in m.get("not_applicable", []) if n["property_id"] != pid]
    for e in m["engines"]:
        if e["name"] == "lean-nsl" and pid not in e["serves_properties"]:
            e["serves_properties"] = sorted(e["serves_properties"] + [pid])
elif cmd == "na":
    pid, reason = sys.argv[2], sys.argv[3]
    m["not_applicable"] = [n for n in m.get("not_applicable", []) if n["property_id"] != pid] + [{"property_id": pid, "reason": reason}]
    m["not_applicable"].sort(key=lambda c: c["property_id"])
elif cmd == "validate":
    import jsonschema
    jsonschema.validate(m, json.load(open("/root/.vp/MANIFEST.schema.json")))
    print("valid; claimed:", [c["property_id"] for c in m["checks"]], "na:", [n["property_id"] for n in m.get("not_applicable", [])])
    sys.exit(0)
json.dump(m, open(p, "w"), indent=1)
print("ok")
