#!/usr/bin/env python3
"""kf.py add-fixed <property> <commit> <matcher> <description>   — append a fixed entry to known_findings.json"""
import json, sys
p = "/verif/known_findings.json"
d = json.load(open(p))
cmd = sys.argv[1]
if cmd == "add-fixed":
    prop, commit, matcher, desc = sys.argv[2:6]
    n = max(int(f["id"][1:]) for f in d["findings"]) + 1
    d["findings"].append(dict(id="F%02d" % n, property=prop, status="fixed", commit=commit, matcher=matcher, description=desc,
                              record="fixed: property=%s %s %s" % (prop, commit, desc)))
elif cmd == "add-open":
    prop, matcher, desc, witness = sys.argv[2:6]
    n = max(int(f["id"][1:]) for f in d["findings"]) + 1
    d["findings"].append(dict(id="F%02d" % n, property=prop, status="open", matcher=matcher, description=desc, witness=witness))
json.dump(d, open(p, "w"), indent=1)
print("ok", len(d["findings"]))
