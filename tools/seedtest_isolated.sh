#!/bin/bash
# like tools/seedtest.sh, but on private copies (/tmp/repo2, /tmp/verif2) so that it can run next to other checks
# setup: git clone /repo /tmp/repo2 (or git -C /tmp/repo2 pull /repo HEAD); rsync -a --delete --exclude .git /verif/ /tmp/verif2/; results appended to /tmp/seedresults2.txt by tools/runseeds_isolated.sh id:n:check ...
id=$1; n=$2; shift 2
checks="${@:-$id}"
patch=/verif/seeded/$id-$n/patch.diff
demo=/verif/seeded/$id-$n/demo.py
cd /tmp/repo2 || exit 2
git checkout -q -- . ; rm -f _seed_demo.py
res="seed $id-$n:"
cp $demo _seed_demo.py
/venv/bin/python _seed_demo.py > /tmp/seedtest2-demo-clean.log 2>&1; res="$res demo-clean=$?"
git apply $patch || { echo "seed $id-$n: patch does not apply"; rm -f _seed_demo.py; exit 2; }
t=$(/venv/bin/python -m pytest -q -p no:cacheprovider --timeout=900 2>&1 | tail -1); res="$res tests=[$t]"
/venv/bin/python _seed_demo.py > /tmp/seedtest2-demo-patched.log 2>&1; res="$res demo-patched=$?"
rm -f _seed_demo.py
cd /tmp/verif2
for c in $checks; do
  NSL_REPO=/tmp/repo2 VERIF_EVIDENCE_DIR=/tmp/seed-evidence2 timeout 3000 ./check $c quick > /tmp/seedtest2-$id-$n-$c.log 2>&1; rc=$?
  v=$(grep -c "^VIOLATION" /tmp/seedtest2-$id-$n-$c.log)
  res="$res | $c/quick rc=$rc violations=$v"
done
git -C /tmp/repo2 checkout -q -- . ; rm -f /tmp/repo2/nsl/parsetab.py.orig
echo "$res"
