#!/bin/bash
# seedtest.sh <prop-id> <n> [check-ids...]  — verify a seeded defect (tests pass, demo fails/passes) and run checks against it.
# Applies the patch to /repo, runs, and ALWAYS restores /repo. Evidence of these runs goes to a scratch dir.
id=$1; n=$2; shift 2
checks="${@:-$id}"
patch=/verif/seeded/$id-$n/patch.diff
demo=/verif/seeded/$id-$n/demo.py
cd /repo || exit 2
if [ -n "$(git status --short)" ]; then echo "REPO NOT CLEAN"; exit 2; fi
res="seed $id-$n:"
cp $demo /repo/_seed_demo.py
/venv/bin/python _seed_demo.py > /tmp/seedtest-demo-clean.log 2>&1; res="$res demo-clean=$?"
git apply $patch || { echo "patch does not apply"; rm -f /repo/_seed_demo.py; exit 2; }
t=$(/venv/bin/python -m pytest -q -p no:cacheprovider --timeout=900 2>&1 | tail -1); res="$res tests=[$t]"
/venv/bin/python _seed_demo.py > /tmp/seedtest-demo-patched.log 2>&1; res="$res demo-patched=$?"
rm -f /repo/_seed_demo.py
cd /verif
for c in $checks; do
  for tier in ${SEED_TIERS:-quick thorough}; do
    VERIF_EVIDENCE_DIR=/tmp/seed-evidence timeout 3000 ./check $c $tier > /tmp/seedtest-$id-$n-$c-$tier.log 2>&1; rc=$?
    v=$(grep -c "^VIOLATION" /tmp/seedtest-$id-$n-$c-$tier.log)
    res="$res | $c/$tier rc=$rc violations=$v"
    [ $rc -eq 1 ] && break
  done
done
git -C /repo checkout -- . ; rm -f /repo/nsl/parsetab.py.orig
echo "$res"
