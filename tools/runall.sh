#!/bin/bash
# tools/runall.sh [tier] — every registered check, sequentially, one summary line each (exit status of the worst)
tier=${1:-quick}; worst=0
cd /verif
for id in $(python3 -c "import json;print(' '.join(c['property_id'] for c in json.load(open('MANIFEST.json'))['checks']))"); do
  s=$(date +%s); out=$(./check $id $tier 2>&1); rc=$?; e=$(date +%s)
  echo "$id rc=$rc $((e-s))s  $(echo "$out" | tail -1)"
  echo "$out" | grep -E "^(VIOLATION|KNOWN-FINDING)" | head -5
  [ $rc -gt $worst ] && worst=$rc
done
exit $worst
