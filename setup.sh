#!/bin/bash
# Build the Lean library (models, proofs, property theorems) and the model driver. Offline.
set -e
cd "$(dirname "$0")/lean"
lake build 2>&1 | tail -20
