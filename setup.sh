#!/bin/bash
# Build the Lean library (models, proofs, property theorems) and the model driver. Offline.
# The Gen tables are regenerated from /repo's current working tree by the translator first.
set -e
cd "$(dirname "$0")"
/venv/bin/python harness/setup_build.py
